#!/bin/bash
# usage: confirm_mutant.sh <ID> [<tag>]  — independent confirmation of a seeded change in its scratch worktree
# /tmp/mut/<tag>: (1) full suite with the change (expected: only the baseline failure + the demo tests),
# (2) demo fails with the change, (3) demo passes without it. Writes /tmp/mut/<tag>-out/confirm.txt
id=$1; tag=${2:-$1}
wt=/tmp/mut/$tag; out=/tmp/mut/$tag-out
cd $wt || exit 2
export CARGO_NET_OFFLINE=true
{
echo "== confirm $tag ($(date -u +%FT%TZ))"
git apply --check -R $out/patch.diff 2>/dev/null && echo "change is applied in the worktree" || { echo "re-applying change"; git apply $out/patch.diff; }
mkdir -p yrs/tests; cp $out/demo.rs yrs/tests/seeded_demo.rs
echo "-- demo WITH the change (must fail)"
cargo test -p yrs --offline --features weak --test seeded_demo 2>&1 | grep -E "^test |test result|error" | head -20
echo "-- full suite WITH the change"
cargo nextest run --workspace --no-fail-fast --offline 2>&1 | grep -E "^\s+(FAIL|Summary)" | sort -u | head -20
echo "-- demo WITHOUT the change (must pass)"
git apply -R $out/patch.diff
cargo test -p yrs --offline --features weak --test seeded_demo 2>&1 | grep -E "^test |test result|error" | head -20
git apply $out/patch.diff
} > $out/confirm.txt 2>&1
echo "confirm $tag done"
