#!/usr/bin/env python3
"""Delta-debugs a replay file whose execution kills the process (signal / abort) or reports a
given violation kind, running every candidate in its own process.

  ddmin_crash.py <replay.json> [--kind KIND] [--out min.json]

Without --kind the predicate is "process dies by a signal"; with --kind it is "replay prints
REPLAY violation ... kind=KIND"."""
import copy, json, os, subprocess, sys, tempfile

BIN = "/verif/harness/target/release/ymon"


def main():
    path = sys.argv[1]
    kind = None
    out = path.replace(".json", ".min.json")
    i = 2
    while i < len(sys.argv):
        if sys.argv[i] == "--kind":
            kind = sys.argv[i + 1]; i += 2
        elif sys.argv[i] == "--out":
            out = sys.argv[i + 1]; i += 2
        else:
            i += 1
    doc = json.load(open(path))
    prog = doc.get("minimised", {}).get("program") or doc["program"]
    tmp = tempfile.mktemp(suffix=".json")
    runs = [0]

    def bad(p):
        d = dict(doc)
        d["program"] = p
        d["minimised"] = {"program": p}
        json.dump(d, open(tmp, "w"))
        runs[0] += 1
        try:
            r = subprocess.run([BIN, "replay", "--file", tmp], capture_output=True, text=True, timeout=60)
        except subprocess.TimeoutExpired:
            return kind == "hang"
        if kind is None:
            return r.returncode < 0 or r.returncode in (134, 139)
        return ("kind=%s" % kind) in r.stdout

    assert bad(prog), "the input does not fail"
    steps = prog["steps"]
    n = 2
    while len(steps) >= 2:
        chunk = (len(steps) + n - 1) // n
        reduced = False
        for s in range(0, len(steps), chunk):
            cand = steps[:s] + steps[s + chunk:]
            p = dict(prog); p["steps"] = cand
            if bad(p):
                steps = cand
                n = max(n - 1, 2)
                reduced = True
                break
        if not reduced:
            if n >= len(steps):
                break
            n = min(n * 2, len(steps))
    # calls inside steps
    def calls_of(st):
        if isinstance(st, dict):
            for k, v in st.items():
                if isinstance(v, dict) and "calls" in v:
                    return v["calls"]
        return None
    for si in range(len(steps)):
        cs = calls_of(steps[si])
        if not cs:
            continue
        ci = 0
        while len(cs) > 1 and ci < len(cs):
            cand = copy.deepcopy(steps)
            calls_of(cand[si]).pop(ci)
            p = dict(prog); p["steps"] = cand
            if bad(p):
                steps = cand
                cs = calls_of(steps[si])
            else:
                ci += 1
    prog = dict(prog); prog["steps"] = steps
    doc["minimised"] = {"program": prog}
    doc["program"] = prog
    json.dump(doc, open(out, "w"), indent=1)
    print("minimised to %d steps in %d runs -> %s" % (len(steps), runs[0], out))
    os.unlink(tmp)


if __name__ == "__main__":
    main()
