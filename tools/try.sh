#!/bin/bash
# usage: try.sh PROP COUNT [extra args]  — run one shard in-process and summarise (development helper)
p=$1; n=${2:-1000}; shift; shift
rm -rf /tmp/ymon-replays
/usr/bin/time -f "%es" /verif/harness/target/release/ymon sim --prop $p --count $n --replay-dir /tmp/ymon-replays "$@" | python3 -c "
import json,sys
d=json.load(sys.stdin)
print(d['prop'], 'evals', d['evaluations'], 'nontrivial', len(d['hashes']), 'harness_errors', d['harness_errors'][:2])
from collections import Counter
print(Counter(v['prop']+'/'+v['kind'] for v in d['violations']))
print({k:v for k,v in d['counters'].items() if not k.startswith('op_') and not k.startswith('deliver_') and not k.startswith('relay_') and not k.startswith('msgs_')})
for v in d['violations'][:40]:
    if 'replay' in v: print('---', v['kind'], 'min steps', v.get('min_steps'), v['replay']); print((v.get('min_detail') or v['detail'])[:1800]); print()
"
