#!/usr/bin/env python3
"""Generates /verif/MANIFEST.json from the table below (keeps it valid and in sync with ./check)."""
import json, os, subprocess, sys

ROOT = os.path.dirname(os.path.dirname(os.path.abspath(__file__)))

CLAIMED = {
    "C01": dict(
        technique="runtime monitoring: replica simulator with fault-injecting delivery; canonical-dump equality oracle at quiescence + late joiners",
        text="Exploration: tens of thousands of generated multi-replica histories (every op kind, nested types, all gc/offset/cleanup configurations, adversarial client ids) delivered under reordering, duplication, merge/diff/full-state relays and v1/v2 re-coding; after a drain to fixpoint all replicas and three late joiners (other permutation with duplicates, one merged blob, a relay's full state) must have equal canonical dumps, equal state vectors and nothing pending. Holds on the executions observed; nothing is proved.",
        design="DESIGN.md section 3 C01, 2.2"),
    "C02": dict(
        technique="runtime monitoring: online check after every delivery against an external unit-level causal model (hook H1/H2)",
        text="Exploration with an exact oracle: the harness keeps, outside yrs, the dependency graph of every unit handed to a replica and requires lower(M) <= integrated <= upper(M) and has_missing_updates() == (a handed block lacks a dependency) after every single delivery of hostile schedules (same-sender reordering, withholding, relays through gapped replicas), plus equal vectors / nothing pending after full delivery; a full-state export of a replica must carry every unit and every deletion it was handed, integrated/applied or still stashed.",
        design="DESIGN.md section 3 C02, 2.3"),
    "C04": dict(
        technique="runtime monitoring: uniquely tagged elements, global pair-order table over all intermediate states, visibility vs causal model",
        text="Exploration: every sequence of every replica is read after every step; a tag seen twice, two tags seen in opposite orders anywhere in the history, a tag visible before its insertion is integrable or after a received deletion, or an integrated undeleted tag that is invisible, is a violation.",
        design="DESIGN.md section 3 C04"),
    "C17": dict(
        technique="runtime monitoring: pairwise agreement of all public read paths on every reachable state of the simulator",
        text="Exploration: len/iter/get/to_json/get_string/diff, map keys/values/iter/contains_key/get, XML children/first_child/siblings/parent/get/successors/rendered string are cross-checked on every live type after every step of mixed multi-replica histories, both offset kinds.",
        design="DESIGN.md section 3 C17"),
}

CLAIMED.update({
    "C05": dict(
        technique="runtime monitoring: per-register causal-LWW necessary conditions against happened-before recorded from unit ids (hooks H1/H2)",
        text="Exploration with a necessary-condition oracle: every map/attribute write is recorded with its unit id and the set of writes its author had integrated; after every step, for every (container, key) on every replica: the shown value is a received write that no integrated write had seen and whose removal was not received; an absent key implies a removed maximal write; a write that follows all other received writes and was not removed must be shown; removed/overwritten nested types are unreachable; a write (also one that repeats the value the key already shows) makes a new entry at the head of the key's chain; plus final convergence. Does not re-implement the tie-break among concurrent writes (any of them may win).",
        design="DESIGN.md section 3 C05"),
    "C06": dict(
        technique="runtime monitoring: sync exchanges inside hostile histories checked against integrated-unit sets (hook H2), delete sets and vectors",
        text="Exploration: every relay/exchange payload must carry all units the sender integrated above the requested vector (current, stale, empty; v1/v2; encode_diff and encode_state_as_update); afterwards the receiver contains all sender units and deletions and dominates its vector; ping-pong to a fixpoint gives equal dumps; self-diff and re-application of known updates change nothing and emit nothing; vectors never decrease (checked on every observation).",
        design="DESIGN.md section 3 C06"),
    "C07": dict(
        technique="runtime monitoring: passive followers on the v1 and v2 update-event streams compared with the leader after every transaction; event-count and change/no-change rules",
        text="Exploration: the leader lives inside a hostile multi-replica history (so it integrates out-of-order blocks, stashes, duplicates, partial updates, forced gc); followers fed only by observe_update_v1 / _v2 must equal it after every single transaction; a transaction emits the same number (0 or 1) of events per encoding, and emits iff content, integrated blocks or the delete set changed.",
        design="DESIGN.md section 3 C07"),
    "C08": dict(
        technique="runtime monitoring: differential execution of merge_updates / diff_updates / encode_state_vector_from_update against applying through documents, plus a document-free restriction oracle for diff_updates at synthetic cuts (hook H1); ASan re-run",
        text="Exploration: random multisets of a history's real updates (duplicates, out-of-order, overlapping re-broadcasts, GC and Skip blocks) are merged in random orders/nestings (v1 and v2) and applied to empty and pre-populated documents, compared with one-by-one application immediately (when nothing is pending and no GC-form block is involved) and always after completing both sides with the whole history; diff_updates vs apply; vector-from-update vs the applied document.",
        design="DESIGN.md section 3 C08"),
    "C13": dict(
        technique="runtime monitoring: snapshots taken inside multi-replica histories, restored later into empty documents and compared with the dump recorded at snapshot time",
        text="Exploration: snapshots at random points (skip_gc replicas), restored through encode_state_from_snapshot v1 and v2 at later points and at the end (after edits that extend, split, squash and delete blocks), must reproduce the recorded canonical dump; snapshots survive encode/decode; gc-enabled documents refuse. Snapshots taken over a gap are evaluated as a separate population (known finding D15).",
        design="DESIGN.md section 3 C13"),
    "C14": dict(
        technique="runtime monitoring: sticky indexes created, serialised and resolved on every replica after every step (a third of the histories with undo managers, so that anchors are deleted and restored); expected offset from the item sequence (hook H2); ASan re-run",
        text="Exploration: indexes of both associations at start / inside / block-boundary / end positions of text, array and XML sequences; binary and JSON round trip; on every replica that has integrated the anchor the resolved offset must equal the count of visible units (in that replica's offset unit) before the anchor, or before its tombstone if deleted; start/end indexes of empty collections stay. OffsetKind::Bytes over non-ASCII text is a known finding (D9) - that population is counted, not enforced.",
        design="DESIGN.md section 3 C14"),
    "C15": dict(
        technique="runtime monitoring: gc/no-gc twin replicas compared after every step, forced gc, rebuild from full state, lock-step oracle on sequential histories (every receiver equals the author right after its update, whatever its gc / clean-up setting); invariant monitor 'content the undo stacks name is not collected' on undo-manager programs with forced gc; ASan re-run",
        text="Exploration: deletion-heavy histories (plain content, nested subtrees, map overwrites, formatting); each replica is shadowed by a passive twin with the opposite gc setting and the dumps must agree after every step; forced gc (all / scoped) must not change the dump; a document rebuilt from a replica's full state must equal it; replicas with different gc settings converge. A second job runs undo-manager programs on gc-enabled documents with frequent forced collections: every unit of a scoped type named by the deletions of an undo/redo stack entry must still hold its content after every step (hook H2), and forced gc changes nothing visible.",
        design="DESIGN.md section 3 C15"),
})

CLAIMED["C11"] = dict(
    technique="runtime monitoring: shadow copies driven only by change events compared with reads after every transaction; deep-observer path resolution",
    text="Exploration: observers on every live type of every replica of hostile multi-replica histories; applying each reported text delta / change list / key change set (old values checked) to the observer's previous copy must give exactly the content readable after the transaction, for local and remote transactions alike; one firing per observer and transaction; changed types must reach the deep observer of their root with a path that resolves to them; a type whose rendered content did not change must not fire (events with an empty delta / empty key set are the known finding D8; retain-only deltas that restate attributes are accepted).",
    design="DESIGN.md section 3 C11")

CLAIMED["C03"] = dict(
    technique="runtime monitoring: executable reference models (string-with-attributes / vector / dictionary / tree) run in lock-step with the real document, compared after every call",
    text="Exploration with an exact oracle: every valid call of generated single-replica programs is applied to the real document and to naive reference models; canonical dumps must agree after every call, after every commit (squash), after forced gc and after a full-state round trip into a fresh document (v1/v2), in both offset units with multi-byte and astral characters, gc on and off, nesting to depth 3. try_update / remove / get_or_init return values are checked against the model as well.",
    design="DESIGN.md section 3 C03")
CLAIMED["C12"] = dict(
    technique="runtime monitoring: undo/redo stacks mirrored from public observations with recorded before/after dumps per captured step (injected clock)",
    text="Exploration: for programs mixing tracked edits, clock ticks, undo, redo, foreign-origin edits, remote updates and forced gc the monitor checks the inverse law (dump equals the recorded dump before / after the deepest popped step) whenever no other origin edited since the step was captured, that a call returning false changes nothing, that the untracked type is unchanged at unit level, that elements of untracked origins stay visible in their order, and that both replicas converge after syncing the undo/redo transactions.",
    design="DESIGN.md section 3 C12")

CLAIMED["C16"] = dict(
    technique="runtime monitoring: differential execution against a bit-set (point -> attribute set) model over an exhaustively enumerated small universe, plus random instances and document delete sets",
    text="Enumerated workload with a runtime oracle: all subsets of a 7-clock universe (x all subsets for binary operations), all 3-step construction sequences, all 1024 attributed maps over a 5-clock universe with attribute sets over {a,b}; every result is compared point by point with the model and checked for canonical form, and equal sets must compare, hash and encode equal. Sampled: random instances over 3 clients x 200 clocks, and the delete sets of simulated documents (equal to the deleted blocks of the store, disjoint from visible elements, containing every received deletion of an integrated unit). The enumeration is complete for the stated universe only.",
    design="DESIGN.md section 3 C16")

CLAIMED["C18"] = dict(
    technique="runtime monitoring: scheduler-driven executions of DefaultProtocol peers over byte channels; awareness checked against a per-client (clock, null-beats-value) register model with passive observers",
    text="Exploration: handshakes between two peers with arbitrary prior divergence under all interleavings a seeded scheduler produces (both directions, concurrent local edits forwarded as Update messages) must end with equal documents and nothing pending; every protocol message is re-encoded and must decode to itself. Awareness: instances with injected clocks perform set / re-set / disconnect / timeout removal; every delivery is checked for clock monotonicity, protection of the own live state and idempotence; passive observers fed the same multiset of payloads in different orders (with duplicates) must agree with each other and with the register model.",
    design="DESIGN.md section 3 C18")

CLAIMED["C09"] = dict(
    technique="runtime monitoring: round-trip oracle (decode/encode fixpoint, structural comparison through hook H1, v1<->v2 re-coding, effect equality on documents) over harvested and generated payloads",
    text="Exploration: every wire type is round-tripped on payloads harvested from hostile simulated histories, on generated values (all Any classes, all message tags, extreme ids/clocks, every sticky-index scope), on hand-written lib0 updates carrying foreign-only content kinds (Binary, legacy JSON, Deleted, GC, Skip) and on the Yjs-produced data set in assets/; structural equality, byte stability, cross-version re-coding and equality of the documents obtained by applying the v1 and the v2 form are required.",
    design="DESIGN.md section 3 C09")
CLAIMED["C10"] = dict(
    technique="runtime monitoring + sanitizers: mutation fuzzing of 21 decode entry points in isolated workers under a counting global allocator (mon build with overflow checks and core ub_checks; thorough tier adds the release build, ASan and Miri)",
    text="Exploration: hundreds of thousands of systematically and randomly mutated valid payloads (extreme count/length fields, truncations at every offset of small payloads, deep nesting, invalid UTF-8, splices) per run; an input may only yield a value or an error - a panic, an abort, a stack overflow (worker death attributed to the exact input), a single allocation request or a peak above 64*len+1MiB, or super-linear allocator work is a violation, as is a decoded value that cannot be encoded again.",
    design="DESIGN.md section 3 C10")

CLAIMED["C20"] = dict(
    technique="runtime monitoring: quotations and links dereferenced on every replica after every step and compared with the visible elements between the boundary units (hook H2); observer counters",
    text="Exploration: quotations over text / XML-text / array ranges of every bound form and links to map entries are created inside hostile multi-replica histories and dereferenced on every replica that has integrated them after every step; the result must be exactly the currently visible elements between the boundary units (boundaries as the range named them), links must follow the entry's current value and yield nothing once it is removed, creating a quotation must leave the source unchanged, replicas must converge. The observer clause is monitored on the creating replica; its violations are recorded as known finding D23.",
    design="DESIGN.md section 3 C20")

CLAIMED["C19"] = dict(
    technique="runtime monitoring: source-level differential execution of the exported extern \"C\" functions (yffi/src/lib.rs compiled into the monitor) against a native twin and against the Rust API on the same Doc; event projection through C callbacks; thorough tier repeats the workload under AddressSanitizer",
    text="Exploration: seeded programs of C API calls (documents, transactions with origins, text/array/map/XML incl. attributes, embeds, deltas, every input cell kind with non-ASCII strings, nested shared types, weak links, state vectors, v1/v2 diffs and update application, snapshots, sticky indexes, undo manager, observers) are executed exactly as C would execute them; after every call the C-driven document must equal a natively driven twin, every value read through output cells / iterators / event accessors must equal what the Rust API returns for the same document and the same event, and exchanges with a Rust-driven peer must converge. Functions not driven (listed in the evidence file as the complement of the per-function call counters) are not covered.",
    design="DESIGN.md section 3 C19")

NOT_YET = {}


def main():
    props = [json.loads(l) for l in open(os.path.join(ROOT, "properties.jsonl"))]
    hooks_commits = []
    try:
        out = subprocess.run(["git", "-C", "/repo", "log", "--format=%H %s"], capture_output=True, text=True).stdout
        for line in out.splitlines():
            h, s = line.split(" ", 1)
            if s.startswith("verif hooks"):
                hooks_commits.append(h)
    except Exception:
        pass
    checks = []
    na = []
    for p in props:
        pid = p["id"]
        if pid in CLAIMED:
            c = CLAIMED[pid]
            checks.append({
                "property_id": pid,
                "quick_cmd": "./check %s --tier quick" % pid,
                "thorough_cmd": "./check %s --tier thorough" % pid,
                "evidence_file": "/verif/evidence/%s.json" % pid,
                "replay_cmd_template": "./check %s --replay {path}" % pid,
                "engine": "ymon",
                "level_claimed": {"category": "exploration", "text": c["text"], "design_ref": c["design"]},
                "level_note": "Trusted: the reference models / canonical dump in /verif/harness, the read-only hooks in yrs/src/verif.rs, the generator staying inside the property's stated domain. Verdict = 'held on the executions observed by this run' (counts in the evidence file).",
                "technique": c["technique"],
            })
        else:
            na.append({"property_id": pid, "reason": NOT_YET.get(pid, "monitor not built yet in this revision of /verif (work in progress; see DESIGN.md section 3 for the planned oracle)")})
    manifest = {
        "version": 1,
        "setup_cmd": "./check --build",
        "hooks": {
            "guard": "--cfg y_crdt_y_crdt_verif",
            "enable": "RUSTFLAGS=--cfg y_crdt_y_crdt_verif (set in /verif/harness/.cargo/config.toml; the harness depends on /repo/yrs by path)",
            "baseline_off_cmd": "cd /repo && cargo nextest run --workspace --no-fail-fast --offline || cargo test --workspace --no-fail-fast --offline",
            "source_commits": hooks_commits,
            "add_only": True,
        },
        "engines": [{"name": "ymon", "path": "/verif/harness", "serves_properties": sorted(CLAIMED.keys()),
                     "kind_free_text": "Rust harness: replica simulator, reference models and monitors; driven by ./check (python) which shards, isolates, aggregates and applies known_findings.json"}],
        "checks": checks,
        "not_applicable": na,
        "notes": "Technique family: runtime monitoring and sanitizers. Every check rebuilds the harness against /repo's working tree (cargo, offline). VERIF_SEED selects the workload seed (default 1).",
    }
    json.dump(manifest, open(os.path.join(ROOT, "MANIFEST.json"), "w"), indent=1)
    print("wrote MANIFEST.json: %d checks, %d not_applicable" % (len(checks), len(na)))


if __name__ == "__main__":
    main()
