#!/usr/bin/env python3
"""Generates /verif/MANIFEST.json from the table below (keeps it valid and in sync with ./check)."""
import json, os, subprocess, sys

ROOT = os.path.dirname(os.path.dirname(os.path.abspath(__file__)))

CLAIMED = {
    "C01": dict(
        technique="runtime monitoring: replica simulator with fault-injecting delivery; canonical-dump equality oracle at quiescence + late joiners",
        text="Exploration: tens of thousands of generated multi-replica histories (every op kind, nested types, all gc/offset/cleanup configurations, adversarial client ids) delivered under reordering, duplication, merge/diff/full-state relays and v1/v2 re-coding; after a drain to fixpoint all replicas and three late joiners (other permutation with duplicates, one merged blob, a relay's full state) must have equal canonical dumps, equal state vectors and nothing pending. Holds on the executions observed; nothing is proved.",
        design="DESIGN.md section 3 C01, 2.2"),
    "C02": dict(
        technique="runtime monitoring: online check after every delivery against an external unit-level causal model (hook H1/H2)",
        text="Exploration with an exact oracle: the harness keeps, outside yrs, the dependency graph of every unit handed to a replica and requires lower(M) <= integrated <= upper(M) and has_missing_updates() == (a handed block lacks a dependency) after every single delivery of hostile schedules (same-sender reordering, withholding, relays through gapped replicas), plus equal vectors / nothing pending after full delivery.",
        design="DESIGN.md section 3 C02, 2.3"),
    "C04": dict(
        technique="runtime monitoring: uniquely tagged elements, global pair-order table over all intermediate states, visibility vs causal model",
        text="Exploration: every sequence of every replica is read after every step; a tag seen twice, two tags seen in opposite orders anywhere in the history, a tag visible before its insertion is integrable or after a received deletion, or an integrated undeleted tag that is invisible, is a violation.",
        design="DESIGN.md section 3 C04"),
    "C17": dict(
        technique="runtime monitoring: pairwise agreement of all public read paths on every reachable state of the simulator",
        text="Exploration: len/iter/get/to_json/get_string/diff, map keys/values/iter/contains_key/get, XML children/first_child/siblings/parent/get/successors/rendered string are cross-checked on every live type after every step of mixed multi-replica histories, both offset kinds.",
        design="DESIGN.md section 3 C17"),
}

NOT_YET = {}


def main():
    props = [json.loads(l) for l in open(os.path.join(ROOT, "properties.jsonl"))]
    hooks_commits = []
    try:
        out = subprocess.run(["git", "-C", "/repo", "log", "--format=%H %s"], capture_output=True, text=True).stdout
        for line in out.splitlines():
            h, s = line.split(" ", 1)
            if s.startswith("verif hooks"):
                hooks_commits.append(h)
    except Exception:
        pass
    checks = []
    na = []
    for p in props:
        pid = p["id"]
        if pid in CLAIMED:
            c = CLAIMED[pid]
            checks.append({
                "property_id": pid,
                "quick_cmd": "./check %s --tier quick" % pid,
                "thorough_cmd": "./check %s --tier thorough" % pid,
                "evidence_file": "/verif/evidence/%s.json" % pid,
                "replay_cmd_template": "./check %s --replay {path}" % pid,
                "engine": "ymon",
                "level_claimed": {"category": "exploration", "text": c["text"], "design_ref": c["design"]},
                "level_note": "Trusted: the reference models / canonical dump in /verif/harness, the read-only hooks in yrs/src/verif.rs, the generator staying inside the property's stated domain. Verdict = 'held on the executions observed by this run' (counts in the evidence file).",
                "technique": c["technique"],
            })
        else:
            na.append({"property_id": pid, "reason": NOT_YET.get(pid, "monitor not built yet in this revision of /verif (work in progress; see DESIGN.md section 3 for the planned oracle)")})
    manifest = {
        "version": 1,
        "setup_cmd": "./check --build",
        "hooks": {
            "guard": "--cfg y_crdt_y_crdt_verif",
            "enable": "RUSTFLAGS=--cfg y_crdt_y_crdt_verif (set in /verif/harness/.cargo/config.toml; the harness depends on /repo/yrs by path)",
            "baseline_off_cmd": "cd /repo && cargo nextest run --workspace --no-fail-fast --offline || cargo test --workspace --no-fail-fast --offline",
            "source_commits": hooks_commits,
            "add_only": True,
        },
        "engines": [{"name": "ymon", "path": "/verif/harness", "serves_properties": sorted(CLAIMED.keys()),
                     "kind_free_text": "Rust harness: replica simulator, reference models and monitors; driven by ./check (python) which shards, isolates, aggregates and applies known_findings.json"}],
        "checks": checks,
        "not_applicable": na,
        "notes": "Technique family: runtime monitoring and sanitizers. Every check rebuilds the harness against /repo's working tree (cargo, offline). VERIF_SEED selects the workload seed (default 1).",
    }
    json.dump(manifest, open(os.path.join(ROOT, "MANIFEST.json"), "w"), indent=1)
    print("wrote MANIFEST.json: %d checks, %d not_applicable" % (len(checks), len(na)))


if __name__ == "__main__":
    main()
