#!/usr/bin/env python3
"""Regenerates the generated tables of DESIGN.md (between the BEGIN/END markers) from known_findings.json and seeded/*/meta.json."""
import json, os, glob, re
ROOT = os.path.dirname(os.path.dirname(os.path.abspath(__file__)))
p = os.path.join(ROOT, "DESIGN.md")
s = open(p).read()
kf = json.load(open(os.path.join(ROOT, "known_findings.json")))
rows = ["| property | commit | what failed |", "|---|---|---|"]
for f in kf["fixed"]:
    rows.append("| %s | `%s` | %s |" % (f["property"], f["commit"][:10], f["what"].replace("|", "/")))
fixed = "\n".join(rows)
rows = ["| seeded change | breaks | what it needs to manifest | result of the checks |", "|---|---|---|---|"]
for d in sorted(glob.glob(os.path.join(ROOT, "seeded", "*"))):
    m = json.load(open(os.path.join(d, "meta.json")))
    rows.append("| `seeded/%s` | %s | %s | %s |" % (os.path.basename(d), m["breaks_property"], m["needs_to_manifest"].replace("|", "/"), m["checks_run"].replace("|", "/")))
seeded = "\n".join(rows)
def put(s, tag, body):
    a = s.index("<!-- %s_BEGIN -->" % tag) + len("<!-- %s_BEGIN -->" % tag)
    b = s.index("<!-- %s_END -->" % tag)
    return s[:a] + "\n" + body + "\n" + s[b:]
s = put(s, "FIXED_TABLE", fixed)
s = put(s, "SEEDED_TABLE", seeded)
open(p, "w").write(s)
print("DESIGN.md tables regenerated: %d fixed, %d seeded" % (len(kf["fixed"]), len(rows) - 2))
