#!/usr/bin/env python3
"""Regenerates the generated tables of DESIGN.md (between the BEGIN/END markers) from known_findings.json and seeded/*/meta.json."""
import json, os, glob, re
ROOT = os.path.dirname(os.path.dirname(os.path.abspath(__file__)))
p = os.path.join(ROOT, "DESIGN.md")
s = open(p).read()
kf = json.load(open(os.path.join(ROOT, "known_findings.json")))
rows = ["| property | commit | what failed |", "|---|---|---|"]
for f in kf["fixed"]:
    rows.append("| %s | `%s` | %s |" % (f["property"], f["commit"][:10], f["what"].replace("|", "/")))
fixed = "\n".join(rows)
rows = ["| seeded change | breaks | what it needs to manifest | result of the checks |", "|---|---|---|---|"]
for d in sorted(glob.glob(os.path.join(ROOT, "seeded", "*"))):
    m = json.load(open(os.path.join(d, "meta.json")))
    rows.append("| `seeded/%s` | %s | %s | %s |" % (os.path.basename(d), m["breaks_property"], m["needs_to_manifest"].replace("|", "/"), m["checks_run"].replace("|", "/")))
seeded = "\n".join(rows)

# overview table: budgets from PLAN in ../check (the driver is a python file without suffix)
import importlib.machinery, importlib.util
_l = importlib.machinery.SourceFileLoader("vcheck", os.path.join(ROOT, "check"))
_spec = importlib.util.spec_from_loader("vcheck", _l)
vcheck = importlib.util.module_from_spec(_spec)
_l.exec_module(vcheck)
ORACLE = {
    "C01": ("dump equality at quiescence + late joiners", "–"),
    "C02": ("causal model `L ⊆ integrated ⊆ U`, `has_missing` ⇔ a handed form lacks a dependency", "H1, H2"),
    "C03": ("lock-step reference models", "(H2 for layout hash)"),
    "C04": ("exactly-once + global pair-order table + visibility vs causal model", "H1, H2"),
    "C05": ("causal-LWW necessary conditions per key and state", "H1, H2"),
    "C06": ("relay / exchange payloads vs integrated units; monotone vectors; idempotence", "H1, H2"),
    "C07": ("v1/v2 followers equal after every transaction; event counts", "H2"),
    "C08": ("merged vs sequential, diff vs apply, vector-from-update, restriction (cut) oracle", "H1"),
    "C09": ("re-encode fixpoint + structural dump + effect equality", "H1"),
    "C10": ("isolated decode under counting allocator; systematic sweep + random mutation", "–"),
    "C11": ("event-driven shadows vs reads", "–"),
    "C12": ("mirrored undo/redo stacks with before/after dumps", "H2"),
    "C13": ("restore vs recorded dump", "H2 (gap-free?)"),
    "C14": ("resolved index vs expected position", "H2"),
    "C15": ("gc/no-gc twins, forced GC, rebuild, lock-step sequential oracle", "–"),
    "C16": ("bit-set model, exhaustive small universe + random + document delete sets + foreign wire payloads", "H2"),
    "C17": ("pairwise read-path agreement", "H2 (cached lengths)"),
    "C18": ("peers equal at quiescence; awareness register model", "–"),
    "C19": ("C-driven vs native twin; same-Doc read and event projection", "(H2 debug only)"),
    "C20": ("unquote vs visible elements between boundary units", "H2"),
}
rows = ["| id | deciding oracle | hooks | jobs: workload quick / thorough cases |", "|---|---|---|---|"]
for pid in sorted(vcheck.PLAN):
    jobs = []
    for (w, a, nq, nt) in vcheck.PLAN[pid]["jobs"]:
        name = (w + " " + " ".join(x for x in a if not x.startswith("--"))).strip()
        jobs.append("%s %s / %s" % (name, format(nq, ","), format(nt, ",")))
    o, h = ORACLE[pid]
    rows.append("| %s | %s | %s | %s |" % (pid, o, h, "; ".join(jobs)))
overview = "\n".join(rows)
def put(s, tag, body):
    a = s.index("<!-- %s_BEGIN -->" % tag) + len("<!-- %s_BEGIN -->" % tag)
    b = s.index("<!-- %s_END -->" % tag)
    return s[:a] + "\n" + body + "\n" + s[b:]
s = put(s, "FIXED_TABLE", fixed)
s = put(s, "SEEDED_TABLE", seeded)
s = put(s, "OVERVIEW_TABLE", overview)
open(p, "w").write(s)
print("DESIGN.md tables regenerated: %d fixed, %d seeded" % (len(kf["fixed"]), seeded.count("\n") - 1))
