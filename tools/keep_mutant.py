#!/usr/bin/env python3
"""keep_mutant.py <tag> <property> "<needs>" "<detected by ...>"  — copies a confirmed seeded change
from /tmp/mut/<tag>-out into /verif/seeded/<tag>/ with a meta.json."""
import json, os, shutil, sys
tag, prop, needs, detected = sys.argv[1:5]
src = "/tmp/mut/%s-out" % tag
dst = "/verif/seeded/%s" % tag
os.makedirs(dst, exist_ok=True)
for f in ("patch.diff", "demo.rs", "notes.md", "confirm.txt"):
    if os.path.exists(os.path.join(src, f)):
        shutil.copy(os.path.join(src, f), os.path.join(dst, f))
confirm = open(os.path.join(src, "confirm.txt")).read() if os.path.exists(os.path.join(src, "confirm.txt")) else "(confirmation pending)"
meta = {
    "breaks_property": prop,
    "origin": "written by an independent sub-agent that saw only the property text and its own scratch worktree of /repo",
    "needs_to_manifest": needs,
    "confirmed_by_me": "tools/confirm_mutant.sh in the scratch worktree: demo fails with the change, passes without it, full workspace suite run with the change (see confirm.txt)",
    "checks_run": detected,
    "how_to_rerun": "tools/try_mutant.sh seeded/%s/patch.diff %s   (applies to /repo, runs the quick checks, restores /repo)" % (tag, prop),
}
json.dump(meta, open(os.path.join(dst, "meta.json"), "w"), indent=1)
print("kept", dst)
