#!/usr/bin/env python3
"""Development helper: runs the C10 fuzz workload over [0, N), restarting after every process
death, and summarises panic kinds and abort inputs."""
import json, os, subprocess, sys, collections
N = int(sys.argv[1]) if len(sys.argv) > 1 else 5000
BIN = "/verif/harness/target/release/ymon"
pos = 0
kinds = collections.Counter()
aborts = []
first = {}
while pos < N:
    for f in ("/tmp/fs.progress", "/tmp/fs.progress.cand", "/tmp/fs.progress.alloc", "/tmp/fs.json"):
        if os.path.exists(f): os.unlink(f)
    p = subprocess.run([BIN, "fuzz", "--from", str(pos), "--count", str(N - pos), "--progress", "/tmp/fs.progress", "--out", "/tmp/fs.json", "--replay-dir", "/tmp/fs-replays"], capture_output=True, text=True)
    if p.returncode == 0:
        d = json.load(open("/tmp/fs.json"))
        for v in d["violations"]:
            kinds[v["kind"]] += 1
            first.setdefault(v["kind"], v["detail"][:300])
        break
    c = json.load(open("/tmp/fs.progress.cand"))
    alloc = open("/tmp/fs.progress.alloc").read().strip() if os.path.exists("/tmp/fs.progress.alloc") else ""
    err = p.stderr.strip().splitlines()[-2:] if p.stderr else []
    sig = "stack-overflow" if "overflowed its stack" in p.stderr else ("alloc " + alloc.splitlines()[-1] if alloc else "rc=%d" % p.returncode)
    aborts.append((c["idx"], c["target"], len(c["hex"]) // 2, sig))
    open("/tmp/fs-abort-%d.json" % c["idx"], "w").write(json.dumps(c))
    # in-process violations of the dead segment are lost; fine for a survey
    pos = c["idx"] + 1
print("aborts:", len(aborts))
by = collections.Counter((t, s.split()[0]) for _, t, _, s in aborts)
for k, v in by.most_common(): print("  ", k, v)
for a in aborts[:12]: print("   e.g.", a)
print("panic kinds:")
for k, v in kinds.most_common(): print("  ", v, k, "|", first[k][:200])
