#!/bin/bash
# usage: selftest_seeded.sh [<dir under seeded/> ...]  — applies every kept seeded change to /repo in turn (restoring /repo
# after each), runs the quick check of the property it breaks, and expects exit 1 with a VIOLATION line.
cd /verif || exit 2
dirs=${@:-$(ls seeded)}
fail=0
for d in $dirs; do
  prop=$(python3 -c "import json;print(json.load(open('seeded/$d/meta.json'))['breaks_property'])")
  if ! git -C /repo apply --check /verif/seeded/$d/patch.diff 2>/dev/null; then echo "seeded/$d: patch no longer applies to /repo HEAD"; fail=1; continue; fi
  miss=$(python3 -c "import json;print(json.load(open('seeded/$d/meta.json')).get('expected_miss', False))")
  out=$(tools/try_mutant.sh /verif/seeded/$d/patch.diff $prop 2>&1)
  if [ "$miss" = "True" ]; then
    if echo "$out" | grep -q "== $prop exit=1"; then echo "seeded/$d: detected (was recorded as a miss)"; else echo "seeded/$d: missed, as recorded in its meta.json and DESIGN.md section 9"; fi
    continue
  fi
  if echo "$out" | grep -q "== $prop exit=1" && echo "$out" | grep -q "^VIOLATION property=$prop"; then
    echo "seeded/$d: DETECTED by ./check $prop ($(echo "$out" | grep -E "seed=" | tail -1 | sed 's/.*evaluations, //'))"
  else
    echo "seeded/$d: NOT detected by ./check $prop"; echo "$out" | tail -3; fail=1
  fi
done
exit $fail
