#!/bin/bash
# usage: try_mutant.sh <patch.diff> <PROP> [<PROP>...]   — applies a seeded change to /repo, runs the
# quick checks, and always restores /repo afterwards.
patch=$1; shift
cd /repo || exit 2
if ! git diff --quiet; then echo "/repo has uncommitted changes"; exit 2; fi
git apply "$patch" || { echo "patch does not apply"; exit 2; }
trap 'git -C /repo checkout -- . ' EXIT
cd /verif
for p in "$@"; do
  out=$(VERIF_SEED=${VERIF_SEED:-1} ./check $p --tier ${TIER:-quick} 2>&1)
  rc=$?
  echo "== $p exit=$rc"
  echo "$out" | grep -E "VIOLATION|kind=|quick seed|thorough seed|HARNESS" | cut -c1-600 | head -8
done
