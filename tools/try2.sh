#!/bin/bash
# usage: try2.sh WORKLOAD COUNT [extra]  — run a non-sim workload shard and summarise
w=$1; n=${2:-1000}; shift; shift
rm -rf /tmp/ymon-replays
/usr/bin/time -f "%es" /verif/harness/target/release/ymon $w --count $n --replay-dir /tmp/ymon-replays "$@" | python3 -c "
import json,sys
d=json.load(sys.stdin)
print(d['prop'], 'evals', d['evaluations'], 'nontrivial', len(set(d['hashes'])), 'harness_errors', d['harness_errors'][:2])
from collections import Counter
print(Counter(v['kind'] for v in d['violations']))
print(d['counters'])
for v in d['violations'][:60]:
    if 'replay' in v: print('---', v['kind'], 'min steps', v.get('min_steps'), v['replay']); print((v.get('min_detail') or v['detail'])[:1800]); print()
"
