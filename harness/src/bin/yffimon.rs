//! C19 — the C API is a faithful projection of the Rust API (source-level differential).
//! `/repo/yffi/src/lib.rs` is compiled into this binary as a module and its exported
//! `extern "C"` functions are called exactly as C code would call them (C strings, `YInput`
//! cells of every kind, output cells); the same generated program drives a native twin.
#![allow(clippy::all)]
#[allow(warnings)]
#[path = "/repo/yffi/src/lib.rs"]
mod yffi;

use serde_json::json;
use std::collections::{BTreeMap, HashMap};
use std::ffi::{c_void, CStr, CString};
use std::io::Write;
use std::os::raw::c_char;
use std::sync::Arc;
use yrs::block::ClientID;
use yrs::types::text::YChange;
use yrs::types::{Attrs, ToJson};
use yrs::updates::decoder::Decode;
use yrs::updates::encoder::Encode;
use yrs::{
    Any, Array, ArrayPrelim, Assoc, Doc, GetString, In, IndexedSequence, Map, MapPrelim, Observable, OffsetKind, Options, Out, Quotable, ReadTxn, StateVector,
    StickyIndex, Text, TextPrelim, Transact, Update, Xml, XmlElementPrelim, XmlFragment, XmlOut, XmlTextPrelim,
};

type Rng = fastrand::Rng;

fn any_str(a: &Any) -> String {
    match a {
        Any::Map(m) => {
            let mut ks: Vec<_> = m.iter().collect();
            ks.sort_by(|x, y| x.0.cmp(y.0));
            format!("{{{}}}", ks.iter().map(|(k, v)| format!("{}:{}", k, any_str(v))).collect::<Vec<_>>().join(","))
        }
        Any::Array(v) => format!("[{}]", v.iter().map(any_str).collect::<Vec<_>>().join(",")),
        Any::Number(n) => format!("{}", n),
        Any::BigInt(n) if n.unsigned_abs() <= (1 << 53) => format!("{}", *n as f64),
        other => format!("{:?}", other),
    }
}

fn out_str<T: ReadTxn>(o: &Out, txn: &T) -> String {
    match o {
        Out::Any(a) => any_str(a),
        Out::YText(t) => format!("T{:?}", t.get_string(txn)),
        Out::YArray(a) => format!("A[{}]", a.iter(txn).map(|x| out_str(&x, txn)).collect::<Vec<_>>().join(",")),
        Out::YMap(m) => {
            let mut e: Vec<String> = m.iter(txn).map(|(k, v)| format!("{}:{}", k, out_str(&v, txn))).collect();
            e.sort();
            format!("M{{{}}}", e.join(","))
        }
        Out::YXmlElement(e) => canon_xml(&XmlOut::Element(e.clone()), txn),
        Out::YXmlText(e) => canon_xml(&XmlOut::Text(e.clone()), txn),
        Out::YDoc(d) => format!("D{:?}", d.guid().as_ref()),
        Out::YWeakLink(_) => "W".into(),
        other => format!("{}", other.clone().to_string(txn)),
    }
}


/// Text chunks with sorted attributes; adjacent string chunks with equal attributes are merged (where `diff` cuts a run
/// depends on redundant formatting marks, i.e. on block layout, which may differ between two documents).
fn canon_chunks<T: ReadTxn, X: Text>(t: &X, txn: &T) -> String {
    let mut out: Vec<(Option<String>, String, String)> = vec![]; // (string content, rendered non-string, attrs)
    for c in t.diff(txn, YChange::identity) {
        let mut at: Vec<String> = c.attributes.as_ref().map(|a| a.iter().map(|(k, v)| format!("{}={}", k, any_str(v))).collect()).unwrap_or_default();
        at.sort();
        let at = at.join(";");
        match &c.insert {
            Out::Any(Any::String(s)) => {
                if let Some((Some(prev), _, pat)) = out.last_mut() {
                    if *pat == at {
                        prev.push_str(s);
                        continue;
                    }
                }
                out.push((Some(s.to_string()), String::new(), at));
            }
            other => out.push((None, out_str(other, txn), at)),
        }
    }
    out.iter().map(|(s, o, at)| match s { Some(s) => format!("[String({:?})|{}]", s, at), None => format!("[{}|{}]", o, at) }).collect::<Vec<_>>().join("")
}

/// Order-independent rendering of an XML node (attribute and formatting maps are hash maps).
fn canon_xml<T: ReadTxn>(x: &XmlOut, txn: &T) -> String {
    match x {
        XmlOut::Element(e) => {
            let mut at: Vec<String> = e.attributes(txn).map(|(k, v)| format!("{}={}", k, out_str(&v, txn))).collect();
            at.sort();
            let kids: Vec<String> = (0..e.len(txn)).map(|i| e.get(txn, i).map(|c| canon_xml(&c, txn)).unwrap_or_default()).collect();
            format!("<{} {}>{}</>", e.tag(), at.join(" "), kids.join(""))
        }
        XmlOut::Text(t) => {
            let mut at: Vec<String> = t.attributes(txn).map(|(k, v)| format!("{}={}", k, out_str(&v, txn))).collect();
            at.sort();
            let chunks = vec![canon_chunks(t, txn)];
            format!("<#text {}>{}</>", at.join(" "), chunks.join(""))
        }
        XmlOut::Fragment(f) => {
            let kids: Vec<String> = (0..f.len(txn)).map(|i| f.get(txn, i).map(|c| canon_xml(&c, txn)).unwrap_or_default()).collect();
            kids.join("")
        }
    }
}

fn dump(d: &Doc) -> String {
    let t = d.get_or_insert_text("t");
    let a = d.get_or_insert_array("a");
    let m = d.get_or_insert_map("m");
    let x = d.get_or_insert_xml_fragment("x");
    let txn = d.transact();
    let chunks = vec![canon_chunks(&t, &txn)];
    format!("t={} a={} m={} x={}", chunks.join(""), out_str(&Out::YArray(a), &txn), out_str(&Out::YMap(m), &txn), canon_xml(&XmlOut::Fragment(x), &txn))
}

/// Input values of every cell kind.
#[derive(Clone, Debug)]
enum Val {
    Null,
    Undef,
    Bool(bool),
    Float(f64),
    Long(i64),
    Str(String),
    Buf(Vec<u8>),
    Json(String),
    JArr(Vec<Val>),
    JMap(Vec<(String, Val)>),
    YText(String),
    YArray(Vec<Val>),
    YMap(Vec<(String, Val)>),
    XElem(String),
    XText(String),
}

const STRS: [&str; 6] = ["", "a", "zażółć", "万", "😀x", "a\"b\\c"];
const KEYS: [&str; 4] = ["k1", "k2", "ключ", "😀"];

fn gen_val(rng: &mut Rng, depth: u32, shared: bool) -> Val {
    let top = if depth >= 2 { 8 } else if shared && depth == 0 { 15 } else if shared { 13 } else { 10 };
    match rng.u8(0..top) {
        0 => Val::Null,
        1 => Val::Undef,
        2 => Val::Bool(rng.bool()),
        3 => Val::Float([0.5, -1.25, 1e10, 3.0][rng.usize(0..4)] + rng.u32(0..5) as f64),
        4 => Val::Long([0, 1, -1, i64::MAX, i64::MIN, 1 << 40][rng.usize(0..6)] ^ rng.i64(0..7)),
        5 => Val::Str(STRS[rng.usize(0..STRS.len())].to_string()),
        6 => Val::Buf((0..rng.usize(0..5)).map(|_| rng.u8(..)).collect()),
        7 => Val::Json(["[1,2,{\"a\":null}]", "{\"x\":\"ż\",\"y\":[true]}", "3.5", "\"s\""][rng.usize(0..4)].to_string()),
        8 => Val::JArr((0..rng.usize(0..4)).map(|_| gen_val(rng, depth + 1, false)).collect()),
        9 => {
            let n = rng.usize(0..3);
            Val::JMap((0..n).map(|i| (KEYS[i].to_string(), gen_val(rng, depth + 1, false))).collect())
        }
        10 => Val::YText(STRS[rng.usize(0..STRS.len())].to_string()),
        11 => Val::YArray((0..rng.usize(0..3)).map(|_| gen_val(rng, depth + 1, false)).collect()),
        13 => Val::XElem(["div", "ż"][rng.usize(0..2)].to_string()),
        14 => Val::XText(STRS[rng.usize(0..STRS.len())].to_string()),
        _ => {
            let n = rng.usize(0..3);
            Val::YMap((0..n).map(|i| (KEYS[i].to_string(), gen_val(rng, depth + 1, false))).collect())
        }
    }
}


fn gen_attrs(rng: &mut Rng, multi: bool) -> Vec<(String, Val)> {
    let keys = ["b", "i", "ć"];
    // single mode: one key only - end marks of several keys are emitted in hash-map order as well
    let n = if multi { rng.usize(1..=3) } else { 1 };
    let first = if multi { rng.usize(0..3) } else { rng.usize(0..3) * 0 };
    (0..n)
        .map(|i| {
            let v = [Val::Bool(true), Val::Null, Val::Str("x".into()), Val::Long(7), Val::Float(1.5), Val::Str("ż".into())][rng.usize(0..6)].clone();
            (keys[(first + i) % 3].to_string(), v)
        })
        .collect()
}

fn native_attrs(a: &[(String, Val)]) -> Attrs {
    a.iter().map(|(k, v)| (Arc::<str>::from(k.as_str()), to_any(v))).collect()
}

fn text_units<T: ReadTxn, X: Text>(t: &X, txn: &T, utf16: bool) -> Vec<u32> {
    t.diff(txn, YChange::identity)
        .iter()
        .flat_map(|c| match &c.insert {
            Out::Any(Any::String(s)) => s.chars().map(|c| if utf16 { c.len_utf16() as u32 } else { c.len_utf8() as u32 }).collect::<Vec<u32>>(),
            _ => vec![1],
        })
        .collect()
}

/// Keeps C strings and cell arrays alive while a `YInput` referencing them is in use.
#[derive(Default)]
struct Arena {
    strs: Vec<CString>,
    cells: Vec<Vec<yffi::YInput>>,
    keys: Vec<Vec<*mut c_char>>,
    bufs: Vec<Vec<u8>>,
}

impl Arena {
    fn cstr(&mut self, s: &str) -> *mut c_char {
        self.strs.push(CString::new(s).unwrap());
        self.strs.last().unwrap().as_ptr() as *mut c_char
    }
    unsafe fn input(&mut self, v: &Val, count: &mut BTreeMap<String, u64>) -> yffi::YInput {
        let mut c = |n: &str| *count.entry(n.to_string()).or_insert(0) += 1;
        match v {
            Val::Null => {
                c("yinput_null");
                yffi::yinput_null()
            }
            Val::Undef => {
                c("yinput_undefined");
                yffi::yinput_undefined()
            }
            Val::Bool(b) => {
                c("yinput_bool");
                yffi::yinput_bool(*b as u8)
            }
            Val::Float(f) => {
                c("yinput_float");
                yffi::yinput_float(*f)
            }
            Val::Long(l) => {
                c("yinput_long");
                yffi::yinput_long(*l)
            }
            Val::Str(s) => {
                c("yinput_string");
                let p = self.cstr(s);
                yffi::yinput_string(p)
            }
            Val::Json(s) => {
                c("yinput_json");
                let p = self.cstr(s);
                yffi::yinput_json(p)
            }
            Val::Buf(b) => {
                c("yinput_binary");
                self.bufs.push(b.clone());
                let p = self.bufs.last().unwrap().as_ptr() as *const c_char;
                yffi::yinput_binary(p, b.len() as u32)
            }
            Val::JArr(vs) | Val::YArray(vs) => {
                let cells: Vec<yffi::YInput> = vs.iter().map(|x| self.input(x, count)).collect();
                self.cells.push(cells);
                let p = self.cells.last_mut().unwrap().as_mut_ptr();
                if let Val::JArr(_) = v {
                    *count.entry("yinput_json_array".into()).or_insert(0) += 1;
                    yffi::yinput_json_array(p, vs.len() as u32)
                } else {
                    *count.entry("yinput_yarray".into()).or_insert(0) += 1;
                    yffi::yinput_yarray(p, vs.len() as u32)
                }
            }
            Val::JMap(es) | Val::YMap(es) => {
                let cells: Vec<yffi::YInput> = es.iter().map(|(_, x)| self.input(x, count)).collect();
                let keys: Vec<*mut c_char> = es.iter().map(|(k, _)| self.cstr(k)).collect();
                self.cells.push(cells);
                self.keys.push(keys);
                let p = self.cells.last_mut().unwrap().as_mut_ptr();
                let k = self.keys.last_mut().unwrap().as_mut_ptr();
                if let Val::JMap(_) = v {
                    *count.entry("yinput_json_map".into()).or_insert(0) += 1;
                    yffi::yinput_json_map(k, p, es.len() as u32)
                } else {
                    *count.entry("yinput_ymap".into()).or_insert(0) += 1;
                    yffi::yinput_ymap(k, p, es.len() as u32)
                }
            }
            Val::YText(s) => {
                c("yinput_ytext");
                let p = self.cstr(s);
                yffi::yinput_ytext(p)
            }
            Val::XElem(s) => {
                c("yinput_yxmlelem");
                let p = self.cstr(s);
                yffi::yinput_yxmlelem(p)
            }
            Val::XText(s) => {
                c("yinput_yxmltext");
                let p = self.cstr(s);
                yffi::yinput_yxmltext(p)
            }
        }
    }
}

fn to_any(v: &Val) -> Any {
    match v {
        Val::Null => Any::Null,
        Val::Undef => Any::Undefined,
        Val::Bool(b) => Any::Bool(*b),
        Val::Float(f) => Any::Number(*f),
        Val::Long(l) => Any::BigInt(*l),
        Val::Str(s) => Any::String(Arc::from(s.as_str())),
        Val::Buf(b) => Any::Buffer(Arc::from(b.clone())),
        Val::Json(s) => Any::from_json(s).unwrap(),
        Val::JArr(vs) | Val::YArray(vs) => Any::Array(Arc::from(vs.iter().map(to_any).collect::<Vec<_>>())),
        Val::JMap(es) | Val::YMap(es) => Any::Map(Arc::new(es.iter().map(|(k, v)| (k.clone(), to_any(v))).collect::<HashMap<_, _>>())),
        Val::YText(s) | Val::XElem(s) | Val::XText(s) => Any::String(Arc::from(s.as_str())),
    }
}

fn to_in(v: &Val) -> In {
    match v {
        Val::YText(s) => In::from(TextPrelim::new(s.clone())),
        Val::YArray(vs) => In::Array(ArrayPrelim::from(vs.iter().map(to_in).collect::<Vec<In>>())),
        Val::YMap(es) => In::Map(es.iter().map(|(k, v)| (k.clone(), to_in(v))).collect::<MapPrelim>()),
        Val::XElem(n) => In::from(XmlElementPrelim::empty(n.as_str())),
        Val::XText(t) => In::from(XmlTextPrelim::new(t.as_str())),
        other => In::Any(to_any(other)),
    }
}

/// Renders a `YOutput` cell through the C read functions only.
unsafe fn cell_str(o: *const yffi::YOutput, txn: *const yffi::Transaction, count: &mut BTreeMap<String, u64>) -> String {
    let mut c = |n: &str| *count.entry(n.to_string()).or_insert(0) += 1;
    if o.is_null() {
        return "<null>".into();
    }
    let tag = (*o).tag;
    match tag {
        yffi::Y_JSON_NULL => "Null".into(),
        yffi::Y_JSON_UNDEF => "Undefined".into(),
        yffi::Y_JSON_BOOL => {
            c("youtput_read_bool");
            format!("Bool({})", *yffi::youtput_read_bool(o) != 0)
        }
        yffi::Y_JSON_NUM => {
            c("youtput_read_float");
            format!("{}", *yffi::youtput_read_float(o))
        }
        yffi::Y_JSON_INT => {
            c("youtput_read_long");
            let n = *yffi::youtput_read_long(o);
            if n.unsigned_abs() <= (1 << 53) {
                format!("{}", n as f64)
            } else {
                format!("BigInt({})", n)
            }
        }
        yffi::Y_JSON_STR => {
            c("youtput_read_string");
            format!("String({:?})", CStr::from_ptr(yffi::youtput_read_string(o)).to_str().unwrap())
        }
        yffi::Y_JSON_BUF => {
            c("youtput_read_binary");
            let p = yffi::youtput_read_binary(o) as *const u8;
            let len = (*o).len as usize;
            format!("Buffer({:?})", std::slice::from_raw_parts(p, len))
        }
        yffi::Y_JSON_ARR => {
            c("youtput_read_json_array");
            let p = yffi::youtput_read_json_array(o);
            let len = (*o).len as usize;
            let mut v = vec![];
            for i in 0..len {
                v.push(cell_str(p.add(i), txn, count));
            }
            format!("[{}]", v.join(","))
        }
        yffi::Y_JSON_MAP => {
            c("youtput_read_json_map");
            let p = yffi::youtput_read_json_map(o);
            let len = (*o).len as usize;
            let mut v = vec![];
            for i in 0..len {
                let e = p.add(i);
                let k = CStr::from_ptr((*e).key).to_str().unwrap().to_string();
                v.push((k, cell_str((*e).value, txn, count)));
            }
            v.sort();
            format!("{{{}}}", v.iter().map(|(k, x)| format!("{}:{}", k, x)).collect::<Vec<_>>().join(","))
        }
        yffi::Y_TEXT => {
            c("youtput_read_ytext");
            let b = yffi::youtput_read_ytext(o);
            let s = yffi::ytext_string(b, txn);
            let r = format!("T{:?}", CStr::from_ptr(s).to_str().unwrap());
            yffi::ystring_destroy(s);
            r
        }
        yffi::Y_ARRAY => {
            c("youtput_read_yarray");
            let b = yffi::youtput_read_yarray(o);
            let n = yffi::yarray_len(b);
            let mut v = vec![];
            for i in 0..n {
                let e = yffi::yarray_get(b, txn, i);
                v.push(cell_str(e, txn, count));
                yffi::youtput_destroy(e);
            }
            format!("A[{}]", v.join(","))
        }
        yffi::Y_MAP => {
            c("youtput_read_ymap");
            let b = yffi::youtput_read_ymap(o);
            let it = yffi::ymap_iter(b, txn);
            let mut v = vec![];
            loop {
                let e = yffi::ymap_iter_next(it);
                if e.is_null() {
                    break;
                }
                let k = CStr::from_ptr((*e).key).to_str().unwrap().to_string();
                v.push(format!("{}:{}", k, cell_str((*e).value, txn, count)));
                yffi::ymap_entry_destroy(e);
            }
            yffi::ymap_iter_destroy(it);
            v.sort();
            format!("M{{{}}}", v.join(","))
        }
        other => format!("<tag {}>", other),
    }
}


// ---------------------------------------------------------------------------------------------
// Same-document read projection: the whole document rendered through C read functions only, and
// the same rendering from the Rust API on the very same `Doc`.
// ---------------------------------------------------------------------------------------------

type Cnt = BTreeMap<String, u64>;
fn hit(count: &mut Cnt, n: &str) {
    *count.entry(n.to_string()).or_insert(0) += 1;
}

fn num_str(n: i64) -> String {
    if n.unsigned_abs() <= (1 << 53) {
        format!("{}", n as f64)
    } else {
        format!("BigInt({})", n)
    }
}

unsafe fn take_cstr(p: *mut c_char) -> String {
    if p.is_null() {
        return "<null>".into();
    }
    let s = CStr::from_ptr(p).to_str().unwrap().to_string();
    yffi::ystring_destroy(p);
    s
}

unsafe fn c_attr_iter(it: *mut yffi::Attributes, txn: *const yffi::Transaction, count: &mut Cnt) -> String {
    let mut v = vec![];
    loop {
        hit(count, "yxmlattr_iter_next");
        let a = yffi::yxmlattr_iter_next(it);
        if a.is_null() {
            break;
        }
        let k = CStr::from_ptr((*a).name).to_str().unwrap().to_string();
        v.push(format!("{}={}", k, c_cell((*a).value, txn, count, false)));
        hit(count, "yxmlattr_destroy");
        yffi::yxmlattr_destroy(a);
    }
    hit(count, "yxmlattr_iter_destroy");
    yffi::yxmlattr_iter_destroy(it);
    v.sort();
    v.join(",")
}

/// XML node behind an output cell, walked through the C API.
unsafe fn c_xml(o: *const yffi::YOutput, txn: *const yffi::Transaction, count: &mut Cnt, depth: u32) -> String {
    if o.is_null() {
        return "<null>".into();
    }
    match (*o).tag {
        yffi::Y_XML_ELEM => {
            hit(count, "youtput_read_yxmlelem");
            let b = yffi::youtput_read_yxmlelem(o);
            hit(count, "yxmlelem_tag");
            let tag = take_cstr(yffi::yxmlelem_tag(b));
            hit(count, "yxmlelem_attr_iter");
            let attrs = c_attr_iter(yffi::yxmlelem_attr_iter(b, txn), txn, count);
            hit(count, "yxmlelem_string");
            let st = take_cstr(yffi::yxmlelem_string(b, txn));
            hit(count, "yxmlelem_child_len");
            let n = yffi::yxmlelem_child_len(b, txn);
            let mut kids = vec![];
            if depth < 4 {
                for i in 0..n {
                    hit(count, "yxmlelem_get");
                    let c = yffi::yxmlelem_get(b, txn, i);
                    kids.push(c_xml(c, txn, count, depth + 1));
                    if !c.is_null() {
                        // a child's parent is this element
                        let cb = if (*c).tag == yffi::Y_XML_ELEM { yffi::youtput_read_yxmlelem(c) } else { yffi::youtput_read_yxmltext(c) };
                        hit(count, "yxmlelem_parent");
                        if !cb.is_null() && yffi::yxmlelem_parent(cb) != b {
                            kids.push("PARENT-MISMATCH".into());
                        }
                        yffi::youtput_destroy(c as *mut yffi::YOutput);
                    }
                }
            }
            // sibling chain from the first child
            let mut sib = vec![];
            hit(count, "yxmlelem_first_child");
            let mut cur = yffi::yxmlelem_first_child(b);
            let mut last: *mut yffi::Branch = std::ptr::null_mut();
            while !cur.is_null() && sib.len() < 64 {
                sib.push((*cur).tag);
                let cb = if (*cur).tag == yffi::Y_XML_ELEM { yffi::youtput_read_yxmlelem(cur) } else { yffi::youtput_read_yxmltext(cur) };
                last = cb;
                hit(count, "yxml_next_sibling");
                let next = yffi::yxml_next_sibling(cb, txn);
                yffi::youtput_destroy(cur);
                cur = next;
            }
            let mut back = 0;
            while !last.is_null() && back < 64 {
                hit(count, "yxml_prev_sibling");
                let prev = yffi::yxml_prev_sibling(last, txn);
                if prev.is_null() {
                    break;
                }
                back += 1;
                last = if (*prev).tag == yffi::Y_XML_ELEM { yffi::youtput_read_yxmlelem(prev) } else { yffi::youtput_read_yxmltext(prev) };
                yffi::youtput_destroy(prev);
            }
            // tree walker
            hit(count, "yxmlelem_tree_walker");
            let w = yffi::yxmlelem_tree_walker(b, txn);
            let mut walk = vec![];
            loop {
                hit(count, "yxmlelem_tree_walker_next");
                let n = yffi::yxmlelem_tree_walker_next(w);
                if n.is_null() {
                    break;
                }
                walk.push((*n).tag);
                yffi::youtput_destroy(n);
            }
            hit(count, "yxmlelem_tree_walker_destroy");
            yffi::yxmlelem_tree_walker_destroy(w);
            format!("<E {} {{{}}} str={:?} n={} kids[{}] sib{:?} back={} walk{:?}>", tag, attrs, st, n, kids.join(" "), sib, back, walk)
        }
        yffi::Y_XML_TEXT => {
            hit(count, "youtput_read_yxmltext");
            let b = yffi::youtput_read_yxmltext(o);
            hit(count, "yxmltext_len");
            let n = yffi::yxmltext_len(b, txn);
            hit(count, "yxmltext_string");
            let st = take_cstr(yffi::yxmltext_string(b, txn));
            hit(count, "yxmltext_attr_iter");
            let attrs = c_attr_iter(yffi::yxmltext_attr_iter(b, txn), txn, count);
            format!("<X len={} str={:?} {{{}}}>", n, st, attrs)
        }
        other => format!("<xml tag {}>", other),
    }
}

/// Renders an output cell through the C read functions. `deep` follows shared types (needs `txn`).
unsafe fn c_cell(o: *const yffi::YOutput, txn: *const yffi::Transaction, count: &mut Cnt, deep: bool) -> String {
    if o.is_null() {
        return "<null>".into();
    }
    match (*o).tag {
        yffi::Y_JSON_NULL => "Null".into(),
        yffi::Y_JSON_UNDEF => "Undefined".into(),
        yffi::Y_JSON_BOOL => {
            hit(count, "youtput_read_bool");
            format!("Bool({})", *yffi::youtput_read_bool(o) != 0)
        }
        yffi::Y_JSON_NUM => {
            hit(count, "youtput_read_float");
            format!("{}", *yffi::youtput_read_float(o))
        }
        yffi::Y_JSON_INT => {
            hit(count, "youtput_read_long");
            num_str(*yffi::youtput_read_long(o))
        }
        yffi::Y_JSON_STR => {
            hit(count, "youtput_read_string");
            format!("String({:?})", CStr::from_ptr(yffi::youtput_read_string(o)).to_str().unwrap())
        }
        yffi::Y_JSON_BUF => {
            hit(count, "youtput_read_binary");
            let p = yffi::youtput_read_binary(o) as *const u8;
            format!("Buffer({:?})", std::slice::from_raw_parts(p, (*o).len as usize))
        }
        yffi::Y_JSON_ARR => {
            hit(count, "youtput_read_json_array");
            let p = yffi::youtput_read_json_array(o);
            let v: Vec<String> = (0..(*o).len as usize).map(|i| c_cell(p.add(i), txn, count, deep)).collect();
            format!("[{}]", v.join(","))
        }
        yffi::Y_JSON_MAP => {
            hit(count, "youtput_read_json_map");
            let p = yffi::youtput_read_json_map(o);
            let mut v = vec![];
            for i in 0..(*o).len as usize {
                let e = p.add(i);
                v.push(format!("{}:{}", CStr::from_ptr((*e).key).to_str().unwrap(), c_cell((*e).value, txn, count, deep)));
            }
            v.sort();
            format!("{{{}}}", v.join(","))
        }
        yffi::Y_TEXT => {
            hit(count, "youtput_read_ytext");
            let b = yffi::youtput_read_ytext(o);
            if !deep {
                return "T".into();
            }
            hit(count, "ytext_string");
            format!("T{:?}", take_cstr(yffi::ytext_string(b, txn)))
        }
        yffi::Y_ARRAY => {
            hit(count, "youtput_read_yarray");
            let b = yffi::youtput_read_yarray(o);
            if !deep {
                return "A".into();
            }
            format!("A[{}]", c_array(b, txn, count))
        }
        yffi::Y_MAP => {
            hit(count, "youtput_read_ymap");
            let b = yffi::youtput_read_ymap(o);
            if !deep {
                return "M".into();
            }
            format!("M{{{}}}", c_map(b, txn, count))
        }
        yffi::Y_XML_ELEM | yffi::Y_XML_TEXT => {
            if !deep {
                return if (*o).tag == yffi::Y_XML_ELEM { "E".into() } else { "X".into() };
            }
            c_xml(o, txn, count, 0)
        }
        yffi::Y_DOC => {
            hit(count, "youtput_read_ydoc");
            let d = yffi::youtput_read_ydoc(o);
            hit(count, "ydoc_guid");
            format!("D{:?}", take_cstr(yffi::ydoc_guid(d)))
        }
        yffi::Y_WEAK_LINK => "W".into(),
        other => format!("<tag {}>", other),
    }
}

unsafe fn c_array(b: *mut yffi::Branch, txn: *const yffi::Transaction, count: &mut Cnt) -> String {
    hit(count, "yarray_iter");
    let it = yffi::yarray_iter(b, txn as *mut yffi::Transaction);
    let mut v = vec![];
    loop {
        hit(count, "yarray_iter_next");
        let e = yffi::yarray_iter_next(it);
        if e.is_null() {
            break;
        }
        v.push(c_cell(e, txn, count, true));
        yffi::youtput_destroy(e);
    }
    hit(count, "yarray_iter_destroy");
    yffi::yarray_iter_destroy(it);
    v.join(",")
}

unsafe fn c_map(b: *mut yffi::Branch, txn: *const yffi::Transaction, count: &mut Cnt) -> String {
    hit(count, "ymap_iter");
    let it = yffi::ymap_iter(b, txn);
    let mut v = vec![];
    loop {
        hit(count, "ymap_iter_next");
        let e = yffi::ymap_iter_next(it);
        if e.is_null() {
            break;
        }
        v.push(format!("{}:{}", CStr::from_ptr((*e).key).to_str().unwrap(), c_cell((*e).value, txn, count, true)));
        hit(count, "ymap_entry_destroy");
        yffi::ymap_entry_destroy(e);
    }
    hit(count, "ymap_iter_destroy");
    yffi::ymap_iter_destroy(it);
    v.sort();
    v.join(",")
}

fn json_norm(s: &str) -> String {
    match serde_json::from_str::<serde_json::Value>(s) {
        Ok(v) => v.to_string(),
        Err(_) => format!("unparsable:{}", s),
    }
}

struct CH {
    t: *mut yffi::Branch,
    a: *mut yffi::Branch,
    m: *mut yffi::Branch,
    x: *mut yffi::Branch,
}

unsafe fn c_dump(h: &CH, txn: *const yffi::Transaction, count: &mut Cnt) -> String {
    // text: chunks with formatting
    hit(count, "ytext_chunks");
    let mut n = 0u32;
    let ch = yffi::ytext_chunks(h.t, txn, &mut n);
    let mut t = String::new();
    for i in 0..n as usize {
        let c = ch.add(i);
        let mut f = vec![];
        for j in 0..(*c).fmt_len as usize {
            let e = (*c).fmt.add(j);
            f.push(format!("{}={}", CStr::from_ptr((*e).key).to_str().unwrap(), c_cell((*e).value, txn, count, false)));
        }
        f.sort();
        t += &format!("[{}|{}]", c_cell(&(*c).data, txn, count, true), f.join(";"));
    }
    hit(count, "ychunks_destroy");
    yffi::ychunks_destroy(ch, n);
    hit(count, "ytext_len");
    let tl = yffi::ytext_len(h.t, txn);
    let a = c_array(h.a, txn, count);
    hit(count, "yarray_len");
    let al = yffi::yarray_len(h.a);
    let m = c_map(h.m, txn, count);
    hit(count, "ymap_len");
    let ml = yffi::ymap_len(h.m, txn);
    // xml fragment children
    hit(count, "yxmlelem_child_len");
    let xn = yffi::yxmlelem_child_len(h.x, txn);
    let mut x = vec![];
    for i in 0..xn {
        hit(count, "yxmlelem_get");
        let c = yffi::yxmlelem_get(h.x, txn, i);
        x.push(c_xml(c, txn, count, 0));
        if !c.is_null() {
            yffi::youtput_destroy(c as *mut yffi::YOutput);
        }
    }
    hit(count, "ybranch_json");
    let aj = json_norm(&take_cstr(yffi::ybranch_json(h.a, txn as *mut yffi::Transaction)));
    let mj = json_norm(&take_cstr(yffi::ybranch_json(h.m, txn as *mut yffi::Transaction)));
    hit(count, "ytype_kind");
    let kinds = [yffi::ytype_kind(h.t), yffi::ytype_kind(h.a), yffi::ytype_kind(h.m), yffi::ytype_kind(h.x)];
    format!("t({})={} a({})=[{}] m({})={{{}}} x({})={} aj={} mj={} kinds={:?}", tl, t, al, a, ml, m, xn, x.join(" "), aj, mj, kinds)
}

fn r_attrs<'a, T: ReadTxn>(it: impl Iterator<Item = (&'a str, Out)>, txn: &T) -> String {
    let mut v: Vec<String> = it.map(|(k, o)| format!("{}={}", k, r_cell(&o, txn, false))).collect();
    v.sort();
    v.join(",")
}

fn xml_tag(x: &XmlOut) -> i8 {
    match x {
        XmlOut::Element(_) => yffi::Y_XML_ELEM,
        XmlOut::Text(_) => yffi::Y_XML_TEXT,
        XmlOut::Fragment(_) => yffi::Y_XML_FRAG,
    }
}

fn r_xml<T: ReadTxn>(x: &XmlOut, txn: &T, depth: u32) -> String {
    match x {
        XmlOut::Element(e) => {
            let n = e.len(txn);
            let mut kids = vec![];
            if depth < 4 {
                for i in 0..n {
                    match e.get(txn, i) {
                        Some(c) => kids.push(r_xml(&c, txn, depth + 1)),
                        None => kids.push("<null>".into()),
                    }
                }
            }
            let mut sib = vec![];
            let mut back = 0;
            if let Some(f) = e.first_child() {
                sib.push(xml_tag(&f));
                let it: Vec<XmlOut> = match &f {
                    XmlOut::Element(c) => c.siblings(txn).collect(),
                    XmlOut::Text(c) => c.siblings(txn).collect(),
                    XmlOut::Fragment(_) => vec![],
                };
                for s in it.iter().take(63) {
                    sib.push(xml_tag(s));
                }
                back = sib.len() - 1;
            }
            let walk: Vec<i8> = e.successors(txn).map(|n| xml_tag(&n)).collect();
            format!("<E {} {{{}}} str={:?} n={} kids[{}] sib{:?} back={} walk{:?}>", e.tag(), r_attrs(e.attributes(txn), txn), e.get_string(txn), n, kids.join(" "), sib, back, walk)
        }
        XmlOut::Text(t) => format!("<X len={} str={:?} {{{}}}>", t.len(txn), t.get_string(txn), r_attrs(t.attributes(txn), txn)),
        XmlOut::Fragment(_) => "<xml tag 6>".into(),
    }
}

fn r_cell<T: ReadTxn>(o: &Out, txn: &T, deep: bool) -> String {
    match o {
        Out::Any(Any::Null) => "Null".into(),
        Out::Any(Any::Undefined) => "Undefined".into(),
        Out::Any(Any::Bool(b)) => format!("Bool({})", b),
        Out::Any(Any::Number(n)) => format!("{}", n),
        Out::Any(Any::BigInt(n)) => num_str(*n),
        Out::Any(Any::String(s)) => format!("String({:?})", s.as_ref()),
        Out::Any(Any::Buffer(b)) => format!("Buffer({:?})", b.as_ref()),
        Out::Any(Any::Array(v)) => format!("[{}]", v.iter().map(|x| r_cell(&Out::Any(x.clone()), txn, deep)).collect::<Vec<_>>().join(",")),
        Out::Any(Any::Map(m)) => {
            let mut v: Vec<String> = m.iter().map(|(k, x)| format!("{}:{}", k, r_cell(&Out::Any(x.clone()), txn, deep))).collect();
            v.sort();
            format!("{{{}}}", v.join(","))
        }
        Out::YText(t) => {
            if deep {
                format!("T{:?}", t.get_string(txn))
            } else {
                "T".into()
            }
        }
        Out::YArray(a) => {
            if deep {
                format!("A[{}]", a.iter(txn).map(|x| r_cell(&x, txn, true)).collect::<Vec<_>>().join(","))
            } else {
                "A".into()
            }
        }
        Out::YMap(m) => {
            if deep {
                let mut v: Vec<String> = m.iter(txn).map(|(k, x)| format!("{}:{}", k, r_cell(&x, txn, true))).collect();
                v.sort();
                format!("M{{{}}}", v.join(","))
            } else {
                "M".into()
            }
        }
        Out::YXmlElement(e) => {
            if deep {
                r_xml(&XmlOut::Element(e.clone()), txn, 0)
            } else {
                "E".into()
            }
        }
        Out::YXmlText(e) => {
            if deep {
                r_xml(&XmlOut::Text(e.clone()), txn, 0)
            } else {
                "X".into()
            }
        }
        Out::YDoc(d) => format!("D{:?}", d.guid().as_ref()),
        Out::YWeakLink(_) => "W".into(),
        _ => "<tag ?>".into(),
    }
}

struct RH {
    t: yrs::TextRef,
    a: yrs::ArrayRef,
    m: yrs::MapRef,
    x: yrs::XmlFragmentRef,
}

fn r_dump<T: ReadTxn>(h: &RH, txn: &T) -> String {
    let mut t = String::new();
    for c in h.t.diff(txn, YChange::identity) {
        let mut f: Vec<String> = c.attributes.as_ref().map(|a| a.iter().map(|(k, v)| format!("{}={}", k, r_cell(&Out::Any(v.clone()), txn, false))).collect()).unwrap_or_default();
        f.sort();
        t += &format!("[{}|{}]", r_cell(&c.insert, txn, true), f.join(";"));
    }
    let a: Vec<String> = h.a.iter(txn).map(|x| r_cell(&x, txn, true)).collect();
    let mut m: Vec<String> = h.m.iter(txn).map(|(k, x)| format!("{}:{}", k, r_cell(&x, txn, true))).collect();
    m.sort();
    let xn = h.x.len(txn);
    let x: Vec<String> = (0..xn).map(|i| h.x.get(txn, i).map(|c| r_xml(&c, txn, 0)).unwrap_or("<null>".into())).collect();
    let js = |a: Any| {
        let mut w = String::new();
        a.to_json(&mut w);
        json_norm(&w)
    };
    format!(
        "t({})={} a({})=[{}] m({})={{{}}} x({})={} aj={} mj={} kinds={:?}",
        h.t.len(txn),
        t,
        h.a.len(txn),
        a.join(","),
        h.m.len(txn),
        m.join(","),
        xn,
        x.join(" "),
        js(h.a.to_json(txn)),
        js(h.m.to_json(txn)),
        [yffi::Y_TEXT, yffi::Y_ARRAY, yffi::Y_MAP, yffi::Y_XML_FRAG]
    )
}


// ---------------------------------------------------------------------------------------------
// Event projection: the same event rendered through the C event accessors (in a callback registered
// through the C API) and through the Rust API (observer registered on the same shared type).
// ---------------------------------------------------------------------------------------------

#[derive(Default)]
struct EvState {
    log: Vec<String>,
    count: Cnt,
    updates_v1: Vec<Vec<u8>>,
    updates_v2: Vec<Vec<u8>>,
    undo_added: u32,
    undo_popped: u32,
}

unsafe fn c_path(p: *mut yffi::YPathSegment, len: u32, count: &mut Cnt) -> String {
    let mut v = vec![];
    for i in 0..len as usize {
        let s = p.add(i);
        if (*s).tag == yffi::Y_EVENT_PATH_KEY {
            v.push(format!("k:{}", CStr::from_ptr((*s).value.key).to_str().unwrap()));
        } else {
            v.push(format!("i:{}", (*s).value.index));
        }
    }
    hit(count, "ypath_destroy");
    yffi::ypath_destroy(p, len);
    v.join("/")
}

fn r_path(p: yrs::types::Path) -> String {
    p.into_iter()
        .map(|s| match s {
            yrs::types::PathSegment::Key(k) => format!("k:{}", k),
            yrs::types::PathSegment::Index(i) => format!("i:{}", i),
        })
        .collect::<Vec<_>>()
        .join("/")
}

unsafe fn c_text_delta(d: *mut yffi::YDeltaOut, len: u32, count: &mut Cnt) -> String {
    let mut v = vec![];
    for i in 0..len as usize {
        let e = d.add(i);
        let mut at = vec![];
        for j in 0..(*e).attributes_len as usize {
            let a = (*e).attributes.add(j);
            at.push(format!("{}={}", CStr::from_ptr((*a).key).to_str().unwrap(), c_cell(&(*a).value, std::ptr::null(), count, false)));
        }
        at.sort();
        let at = at.join(";");
        v.push(match (*e).tag {
            yffi::Y_EVENT_CHANGE_ADD => format!("ins({}x{}|{})", c_cell((*e).insert, std::ptr::null(), count, false), (*e).len, at),
            yffi::Y_EVENT_CHANGE_DELETE => format!("del({})", (*e).len),
            yffi::Y_EVENT_CHANGE_RETAIN => format!("ret({}|{})", (*e).len, at),
            t => format!("tag{}", t),
        });
    }
    hit(count, "ytext_delta_destroy");
    yffi::ytext_delta_destroy(d, len);
    v.join(",")
}

fn r_text_delta<T: ReadTxn>(d: &[yrs::types::Delta], txn: &T) -> String {
    let at = |a: &Option<Box<Attrs>>| {
        let mut v: Vec<String> = a.as_ref().map(|a| a.iter().map(|(k, v)| format!("{}={}", k, r_cell(&Out::Any(v.clone()), txn, false))).collect()).unwrap_or_default();
        v.sort();
        v.join(";")
    };
    d.iter()
        .map(|e| match e {
            yrs::types::Delta::Inserted(o, a) => format!("ins({}x1|{})", r_cell(o, txn, false), at(a)),
            yrs::types::Delta::Deleted(n) => format!("del({})", n),
            yrs::types::Delta::Retain(n, a) => format!("ret({}|{})", n, at(a)),
        })
        .collect::<Vec<_>>()
        .join(",")
}

unsafe fn c_changes(d: *mut yffi::YEventChange, len: u32, count: &mut Cnt) -> String {
    let mut v = vec![];
    for i in 0..len as usize {
        let e = d.add(i);
        v.push(match (*e).tag {
            yffi::Y_EVENT_CHANGE_ADD => {
                let vals: Vec<String> = (0..(*e).len as usize).map(|j| c_cell((*e).values.add(j), std::ptr::null(), count, false)).collect();
                format!("add[{}]", vals.join(","))
            }
            yffi::Y_EVENT_CHANGE_DELETE => format!("del({})", (*e).len),
            yffi::Y_EVENT_CHANGE_RETAIN => format!("ret({})", (*e).len),
            t => format!("tag{}", t),
        });
    }
    hit(count, "yevent_delta_destroy");
    yffi::yevent_delta_destroy(d, len);
    v.join(",")
}

fn r_changes<T: ReadTxn>(d: &[yrs::types::Change], txn: &T) -> String {
    d.iter()
        .map(|e| match e {
            yrs::types::Change::Added(v) => format!("add[{}]", v.iter().map(|o| r_cell(o, txn, false)).collect::<Vec<_>>().join(",")),
            yrs::types::Change::Removed(n) => format!("del({})", n),
            yrs::types::Change::Retain(n) => format!("ret({})", n),
        })
        .collect::<Vec<_>>()
        .join(",")
}

unsafe fn c_keys(d: *mut yffi::YEventKeyChange, len: u32, count: &mut Cnt) -> String {
    let mut v = vec![];
    for i in 0..len as usize {
        let e = d.add(i);
        let k = CStr::from_ptr((*e).key).to_str().unwrap();
        let (o, n) = (c_cell((*e).old_value, std::ptr::null(), count, false), c_cell((*e).new_value, std::ptr::null(), count, false));
        v.push(match (*e).tag {
            yffi::Y_EVENT_KEY_CHANGE_ADD => format!("{}:add({})", k, n),
            yffi::Y_EVENT_KEY_CHANGE_DELETE => format!("{}:del({})", k, o),
            yffi::Y_EVENT_KEY_CHANGE_UPDATE => format!("{}:upd({},{})", k, o, n),
            t => format!("{}:tag{}", k, t),
        });
    }
    hit(count, "yevent_keys_destroy");
    yffi::yevent_keys_destroy(d, len);
    v.sort();
    v.join(",")
}

fn r_keys<T: ReadTxn>(d: &HashMap<Arc<str>, yrs::types::EntryChange>, txn: &T) -> String {
    let mut v: Vec<String> = d
        .iter()
        .map(|(k, e)| match e {
            yrs::types::EntryChange::Inserted(n) => format!("{}:add({})", k, r_cell(n, txn, false)),
            yrs::types::EntryChange::Removed(o) => format!("{}:del({})", k, r_cell(o, txn, false)),
            yrs::types::EntryChange::Updated(o, n) => format!("{}:upd({},{})", k, r_cell(o, txn, false), r_cell(n, txn, false)),
        })
        .collect();
    v.sort();
    v.join(",")
}

unsafe fn c_text_event(e: *const yffi::YTextEvent, count: &mut Cnt) -> String {
    let mut n = 0u32;
    hit(count, "ytext_event_path");
    let p = yffi::ytext_event_path(e, &mut n);
    let path = c_path(p, n, count);
    hit(count, "ytext_event_delta");
    let d = yffi::ytext_event_delta(e, &mut n);
    hit(count, "ytext_event_target");
    format!("text tgt={:x} path={} delta={}", yffi::ytext_event_target(e) as usize, path, c_text_delta(d, n, count))
}
unsafe fn c_array_event(e: *const yffi::YArrayEvent, count: &mut Cnt) -> String {
    let mut n = 0u32;
    hit(count, "yarray_event_path");
    let p = yffi::yarray_event_path(e, &mut n);
    let path = c_path(p, n, count);
    hit(count, "yarray_event_delta");
    let d = yffi::yarray_event_delta(e, &mut n);
    hit(count, "yarray_event_target");
    format!("array tgt={:x} path={} delta={}", yffi::yarray_event_target(e) as usize, path, c_changes(d, n, count))
}
unsafe fn c_map_event(e: *const yffi::YMapEvent, count: &mut Cnt) -> String {
    let mut n = 0u32;
    hit(count, "ymap_event_path");
    let p = yffi::ymap_event_path(e, &mut n);
    let path = c_path(p, n, count);
    hit(count, "ymap_event_keys");
    let d = yffi::ymap_event_keys(e, &mut n);
    hit(count, "ymap_event_target");
    format!("map tgt={:x} path={} keys={}", yffi::ymap_event_target(e) as usize, path, c_keys(d, n, count))
}
unsafe fn c_xml_event(e: *const yffi::YXmlEvent, count: &mut Cnt) -> String {
    let mut n = 0u32;
    hit(count, "yxmlelem_event_path");
    let p = yffi::yxmlelem_event_path(e, &mut n);
    let path = c_path(p, n, count);
    hit(count, "yxmlelem_event_delta");
    let d = yffi::yxmlelem_event_delta(e, &mut n);
    let delta = c_changes(d, n, count);
    hit(count, "yxmlelem_event_keys");
    let k = yffi::yxmlelem_event_keys(e, &mut n);
    hit(count, "yxmlelem_event_target");
    format!("xml tgt={:x} path={} delta={} keys={}", yffi::yxmlelem_event_target(e) as usize, path, delta, c_keys(k, n, count))
}
unsafe fn c_xmltext_event(e: *const yffi::YXmlTextEvent, count: &mut Cnt) -> String {
    let mut n = 0u32;
    hit(count, "yxmltext_event_path");
    let p = yffi::yxmltext_event_path(e, &mut n);
    let path = c_path(p, n, count);
    hit(count, "yxmltext_event_delta");
    let d = yffi::yxmltext_event_delta(e, &mut n);
    let delta = c_text_delta(d, n, count);
    hit(count, "yxmltext_event_keys");
    let k = yffi::yxmltext_event_keys(e, &mut n);
    hit(count, "yxmltext_event_target");
    format!("xmltext tgt={:x} path={} delta={} keys={}", yffi::yxmltext_event_target(e) as usize, path, delta, c_keys(k, n, count))
}

fn bptr<B: AsRef<yrs::branch::Branch>>(b: &B) -> usize {
    b.as_ref() as *const yrs::branch::Branch as usize
}
fn r_text_event(e: &yrs::types::text::TextEvent, txn: &yrs::TransactionMut) -> String {
    format!("text tgt={:x} path={} delta={}", bptr(e.target()), r_path(e.path()), r_text_delta(e.delta(txn), txn))
}
fn r_array_event(e: &yrs::types::array::ArrayEvent, txn: &yrs::TransactionMut) -> String {
    format!("array tgt={:x} path={} delta={}", bptr(e.target()), r_path(e.path()), r_changes(e.delta(txn), txn))
}
fn r_map_event(e: &yrs::types::map::MapEvent, txn: &yrs::TransactionMut) -> String {
    format!("map tgt={:x} path={} keys={}", bptr(e.target()), r_path(e.path()), r_keys(e.keys(txn), txn))
}
fn r_xml_event(e: &yrs::types::xml::XmlEvent, txn: &yrs::TransactionMut) -> String {
    let t = match e.target() {
        XmlOut::Element(x) => bptr(x),
        XmlOut::Text(x) => bptr(x),
        XmlOut::Fragment(x) => bptr(x),
    };
    format!("xml tgt={:x} path={} delta={} keys={}", t, r_path(e.path()), r_changes(e.delta(txn), txn), r_keys(e.keys(txn), txn))
}
fn r_xmltext_event(e: &yrs::types::xml::XmlTextEvent, txn: &yrs::TransactionMut) -> String {
    format!("xmltext tgt={:x} path={} delta={} keys={}", bptr(e.target()), r_path(e.path()), r_text_delta(e.delta(txn), txn), r_keys(e.keys(txn), txn))
}

extern "C" fn ev_text(state: *mut c_void, e: *const yffi::YTextEvent) {
    unsafe {
        let st = &mut *(state as *mut EvState);
        let mut c = std::mem::take(&mut st.count);
        st.log.push(format!("t: {}", c_text_event(e, &mut c)));
        st.count = c;
    }
}
extern "C" fn ev_array(state: *mut c_void, e: *const yffi::YArrayEvent) {
    unsafe {
        let st = &mut *(state as *mut EvState);
        let mut c = std::mem::take(&mut st.count);
        st.log.push(format!("a: {}", c_array_event(e, &mut c)));
        st.count = c;
    }
}
extern "C" fn ev_map(state: *mut c_void, e: *const yffi::YMapEvent) {
    unsafe {
        let st = &mut *(state as *mut EvState);
        let mut c = std::mem::take(&mut st.count);
        st.log.push(format!("m: {}", c_map_event(e, &mut c)));
        st.count = c;
    }
}
extern "C" fn ev_xml(state: *mut c_void, e: *const yffi::YXmlEvent) {
    unsafe {
        let st = &mut *(state as *mut EvState);
        let mut c = std::mem::take(&mut st.count);
        st.log.push(format!("x: {}", c_xml_event(e, &mut c)));
        st.count = c;
    }
}
extern "C" fn ev_deep(state: *mut c_void, len: u32, events: *const yffi::YEvent) {
    unsafe {
        let st = &mut *(state as *mut EvState);
        let mut c = std::mem::take(&mut st.count);
        let mut v = vec![];
        for i in 0..len as usize {
            let e = events.add(i);
            v.push(match (*e).tag {
                yffi::Y_TEXT => c_text_event(&(*e).content.text, &mut c),
                yffi::Y_ARRAY => c_array_event(&(*e).content.array, &mut c),
                yffi::Y_MAP => c_map_event(&(*e).content.map, &mut c),
                yffi::Y_XML_ELEM | yffi::Y_XML_FRAG => c_xml_event(&(*e).content.xml_elem, &mut c),
                yffi::Y_XML_TEXT => c_xmltext_event(&(*e).content.xml_text, &mut c),
                yffi::Y_WEAK_LINK => "weak".to_string(),
                t => format!("tag{}", t),
            });
        }
        st.log.push(format!("deep: {}", v.join(" || ")));
        st.count = c;
    }
}
fn r_deep(txn: &yrs::TransactionMut, events: &yrs::types::Events) -> String {
    let v: Vec<String> = events
        .iter()
        .map(|e| match e {
            yrs::types::Event::Text(e) => r_text_event(e, txn),
            yrs::types::Event::Array(e) => r_array_event(e, txn),
            yrs::types::Event::Map(e) => r_map_event(e, txn),
            yrs::types::Event::XmlFragment(e) => r_xml_event(e, txn),
            yrs::types::Event::XmlText(e) => r_xmltext_event(e, txn),
            yrs::types::Event::Weak(_) => "weak".to_string(),
        })
        .collect();
    format!("deep: {}", v.join(" || "))
}
extern "C" fn ev_update_v1(state: *mut c_void, len: u32, data: *const c_char) {
    unsafe {
        let st = &mut *(state as *mut EvState);
        st.updates_v1.push(std::slice::from_raw_parts(data as *const u8, len as usize).to_vec());
    }
}
extern "C" fn ev_update_v2(state: *mut c_void, len: u32, data: *const c_char) {
    unsafe {
        let st = &mut *(state as *mut EvState);
        st.updates_v2.push(std::slice::from_raw_parts(data as *const u8, len as usize).to_vec());
    }
}
extern "C" fn ev_after_txn(state: *mut c_void, e: *mut yffi::YAfterTransactionEvent) {
    unsafe {
        let st = &mut *(state as *mut EvState);
        let sv = |s: &yffi::YStateVector| {
            let mut v: Vec<(u64, u32)> = (0..s.entries_count as usize).map(|i| (*s.client_ids.add(i), *s.clocks.add(i))).collect();
            v.sort();
            format!("{:?}", v)
        };
        let ds = &(*e).delete_set;
        let mut d = vec![];
        for i in 0..ds.entries_count as usize {
            let seq = &*ds.ranges.add(i);
            let r: Vec<(u32, u32)> = (0..seq.len as usize).map(|j| ((*seq.seq.add(j)).start, (*seq.seq.add(j)).end)).collect();
            d.push((*ds.client_ids.add(i), r));
        }
        d.sort();
        st.log.push(format!("after: before={} after={} ds={:?}", sv(&(*e).before_state), sv(&(*e).after_state), d));
    }
}
fn r_after_txn(e: &yrs::TransactionCleanupEvent) -> String {
    let sv = |s: &StateVector| {
        let mut v: Vec<(u64, u32)> = s.iter().map(|(c, k)| (c.get(), *k)).collect();
        v.sort();
        format!("{:?}", v)
    };
    let mut d: Vec<(u64, Vec<(u32, u32)>)> = e.delete_set.iter().map(|(c, r)| (c.get(), r.iter().map(|r| (r.start, r.end)).collect())).collect();
    d.sort();
    format!("after: before={} after={} ds={:?}", sv(&e.before_state), sv(&e.after_state), d)
}
extern "C" fn ev_undo_added(state: *mut c_void, _e: *const yffi::YUndoEvent) {
    unsafe { (*(state as *mut EvState)).undo_added += 1 }
}
extern "C" fn ev_undo_popped(state: *mut c_void, _e: *const yffi::YUndoEvent) {
    unsafe { (*(state as *mut EvState)).undo_popped += 1 }
}

extern "C" fn count_text(state: *mut c_void, _e: *const yffi::YTextEvent) {
    unsafe { *(state as *mut u32) += 1 }
}
extern "C" fn count_map(state: *mut c_void, _e: *const yffi::YMapEvent) {
    unsafe { *(state as *mut u32) += 1 }
}
extern "C" fn count_array(state: *mut c_void, _e: *const yffi::YArrayEvent) {
    unsafe { *(state as *mut u32) += 1 }
}

fn native_out_str<T: ReadTxn>(o: &Out, txn: &T) -> String {
    // same rendering as cell_str, from the Rust API
    match o {
        Out::Any(Any::Null) => "Null".into(),
        Out::Any(Any::Undefined) => "Undefined".into(),
        Out::Any(Any::Bool(b)) => format!("Bool({})", b),
        Out::Any(Any::Number(n)) => format!("{}", n),
        Out::Any(Any::BigInt(n)) if n.unsigned_abs() <= (1 << 53) => format!("{}", *n as f64),
        Out::Any(Any::BigInt(n)) => format!("BigInt({})", n),
        Out::Any(Any::String(s)) => format!("String({:?})", s.as_ref()),
        Out::Any(Any::Buffer(b)) => format!("Buffer({:?})", b.as_ref()),
        Out::Any(Any::Array(v)) => format!("[{}]", v.iter().map(|x| native_out_str(&Out::Any(x.clone()), txn)).collect::<Vec<_>>().join(",")),
        Out::Any(Any::Map(m)) => {
            let mut v: Vec<(String, String)> = m.iter().map(|(k, x)| (k.clone(), native_out_str(&Out::Any(x.clone()), txn))).collect();
            v.sort();
            format!("{{{}}}", v.iter().map(|(k, x)| format!("{}:{}", k, x)).collect::<Vec<_>>().join(","))
        }
        Out::YText(t) => format!("T{:?}", t.get_string(txn)),
        Out::YArray(a) => format!("A[{}]", a.iter(txn).map(|x| native_out_str(&x, txn)).collect::<Vec<_>>().join(",")),
        Out::YMap(m) => {
            let mut v: Vec<String> = m.iter(txn).map(|(k, x)| format!("{}:{}", k, native_out_str(&x, txn))).collect();
            v.sort();
            format!("M{{{}}}", v.join(","))
        }
        other => format!("<{}>", other.clone().to_string(txn)),
    }
}


/// The C-only rendering of the document against the Rust API rendering of the same document.
unsafe fn same_doc_check(dc: *mut yffi::Doc, ch: &CH, rh: &RH, count: &mut Cnt) -> Option<(String, String)> {
    hit(count, "ydoc_read_transaction");
    let txn = yffi::ydoc_read_transaction(dc);
    hit(count, "ytransaction_writeable");
    if yffi::ytransaction_writeable(txn) != 0 {
        return Some(("readback".into(), "ytransaction_writeable is true for a read transaction".into()));
    }
    let cd = c_dump(ch, txn, count);
    hit(count, "ytransaction_commit");
    yffi::ytransaction_commit(txn);
    let rd = r_dump(rh, &(*dc).transact());
    if cd != rd {
        return Some(("readback-dump".into(), format!("the document read through the C API differs from the Rust API view of the same document\n  C:    {}\n  Rust: {}", cd, rd)));
    }
    None
}


/// Compares what the C callbacks rendered with what the Rust observers of the same document rendered.
unsafe fn events_check(evc: *mut EvState, evr: &Arc<std::sync::Mutex<EvState>>, follower: &Doc, fed: &mut usize, count: &mut Cnt) -> Option<(String, String)> {
    let c = &mut *evc;
    let mut r = evr.lock().unwrap();
    for (k, v) in std::mem::take(&mut c.count) {
        *count.entry(k).or_insert(0) += v;
    }
    let mut bad = None;
    if c.log != r.log {
        let i = (0..c.log.len().max(r.log.len())).find(|&i| c.log.get(i) != r.log.get(i)).unwrap();
        bad = Some(("event-differs".into(), format!("an event read through the C event accessors differs from the Rust API view of the same event\n  C:    {:?}\n  Rust: {:?}", c.log.get(i), r.log.get(i))));
    } else if c.updates_v1 != r.updates_v1 || c.updates_v2 != r.updates_v2 {
        bad = Some(("update-event-differs".into(), format!("update payloads delivered to the C callbacks ({} v1, {} v2) differ from those delivered to Rust observers ({} v1, {} v2)", c.updates_v1.len(), c.updates_v2.len(), r.updates_v1.len(), r.updates_v2.len())));
    }
    while *fed < c.updates_v1.len() {
        if let Ok(u) = Update::decode_v1(&c.updates_v1[*fed]) {
            let _ = follower.transact_mut().apply_update(u);
        }
        *fed += 1;
    }
    *count.entry("observed_events".into()).or_insert(0) += c.log.len() as u64;
    c.log.clear();
    r.log.clear();
    bad
}

struct Outcome {
    bad: Option<(String, String)>,
    calls: u64,
    log: Vec<String>,
}

unsafe fn run(seed: u64, count: &mut BTreeMap<String, u64>) -> Outcome {
    let mut rng = Rng::with_seed(seed);
    let utf16 = rng.bool();
    let skip_gc = rng.bool();
    let cleanup = rng.bool();
    // The order in which several formatting attributes of one call become marks follows hash-map iteration order, which
    // legitimately differs between two documents; layouts then differ, and with them everything that depends on layout
    // (which no-op calls still create items, how concurrent insertions interleave with marks). Programs therefore come in
    // two modes: `multi` (several attributes per call; no undo manager comparison, no concurrency with the peer, no
    // twin observer counts) and single-attribute programs with everything compared.
    let multi = rng.bool();
    let flags = if utf16 { yffi::Y_OFFSET_UTF16 } else { yffi::Y_OFFSET_BYTES } | if skip_gc { yffi::Y_SKIP_GC } else { 0 } | if cleanup { yffi::Y_CLEANUP_FMT } else { 0 };
    let guid = CString::new("g").unwrap();
    macro_rules! c {
        ($n:expr) => {
            *count.entry($n.to_string()).or_insert(0) += 1
        };
    }
    c!("ydoc_new_with_options");
    let dc = yffi::ydoc_new_with_options(yffi::YOptions { id: 1, guid: guid.as_ptr(), collection_id: std::ptr::null(), flags });
    let mk = |id: u64| {
        let mut o = Options::with_client_id(ClientID::new(id));
        // only the twin of the C-driven document cleans up formatting like it does
        o.cleanup_formatting = cleanup && id == 1;
        o.offset_kind = if utf16 { OffsetKind::Utf16 } else { OffsetKind::Bytes };
        o.skip_gc = skip_gc;
        o.guid = "g".into();
        Doc::with_options(o)
    };
    let dr = mk(1); // native twin, same client id: must produce identical structures
    let peer = mk(2); // a Rust-driven replica exchanging updates with the C-driven document
    let peer_r = mk(2); // the same replica in the all-native world (exchanges with the twin)
    let names: Vec<CString> = ["t", "a", "m", "x"].iter().map(|s| CString::new(*s).unwrap()).collect();
    c!("ytext");
    c!("yarray");
    c!("ymap");
    c!("yxmlfragment");
    let (tc, ac, mc, xc) = (yffi::ytext(dc, names[0].as_ptr()), yffi::yarray(dc, names[1].as_ptr()), yffi::ymap(dc, names[2].as_ptr()), yffi::yxmlfragment(dc, names[3].as_ptr()));
    let (tr, ar, mr, xr) = (dr.get_or_insert_text("t"), dr.get_or_insert_array("a"), dr.get_or_insert_map("m"), dr.get_or_insert_xml_fragment("x"));
    let (tp, ap, mp) = (peer.get_or_insert_text("t"), peer.get_or_insert_array("a"), peer.get_or_insert_map("m"));
    peer.get_or_insert_xml_fragment("x");
    let (tq, aq, mq) = (peer_r.get_or_insert_text("t"), peer_r.get_or_insert_array("a"), peer_r.get_or_insert_map("m"));
    peer_r.get_or_insert_xml_fragment("x");
    // handles on the C-driven document obtained through the Rust API: the same-document reference for read functions
    let tcr = (*dc).get_or_insert_text("t");
    let ch = CH { t: tc, a: ac, m: mc, x: xc };
    let rh = RH { t: tcr.clone(), a: (*dc).get_or_insert_array("a"), m: (*dc).get_or_insert_map("m"), x: (*dc).get_or_insert_xml_fragment("x") };
    // observers on both sides
    let mut ev_c = [0u32; 3];
    c!("ytext_observe");
    c!("ymap_observe");
    c!("yarray_observe");
    let s1 = yffi::ytext_observe(tc, &mut ev_c[0] as *mut u32 as *mut c_void, count_text);
    let s2 = yffi::ymap_observe(mc, &mut ev_c[1] as *mut u32 as *mut c_void, count_map);
    let s3 = yffi::yarray_observe(ac, &mut ev_c[2] as *mut u32 as *mut c_void, count_array);
    let ev_r = Arc::new(std::sync::Mutex::new([0u32; 3]));
    let (e1, e2, e3) = (ev_r.clone(), ev_r.clone(), ev_r.clone());
    let _o1 = tr.observe(move |_, _| e1.lock().unwrap()[0] += 1);
    let _o2 = mr.observe(move |_, _| e2.lock().unwrap()[1] += 1);
    let _o3 = ar.observe(move |_, _| e3.lock().unwrap()[2] += 1);
    // event projection: C callbacks and Rust observers on the same document
    let evc: *mut EvState = Box::into_raw(Box::new(EvState::default()));
    let evp = evc as *mut c_void;
    c!("yxmlelem_observe");
    c!("yobserve_deep");
    c!("ydoc_observe_updates_v1");
    c!("ydoc_observe_updates_v2");
    c!("ydoc_observe_after_transaction");
    let csubs = vec![
        yffi::ytext_observe(tc, evp, ev_text),
        yffi::yarray_observe(ac, evp, ev_array),
        yffi::ymap_observe(mc, evp, ev_map),
        yffi::yxmlelem_observe(xc, evp, ev_xml),
        yffi::yobserve_deep(ac, evp, ev_deep),
        yffi::yobserve_deep(mc, evp, ev_deep),
        yffi::yobserve_deep(xc, evp, ev_deep),
        yffi::ydoc_observe_updates_v1(dc, evp, ev_update_v1),
        yffi::ydoc_observe_updates_v2(dc, evp, ev_update_v2),
        yffi::ydoc_observe_after_transaction(dc, evp, ev_after_txn),
    ];
    let evr: Arc<std::sync::Mutex<EvState>> = Arc::new(std::sync::Mutex::new(EvState::default()));
    let rsubs = {
        use yrs::DeepObservable;
        let l = |f: Box<dyn Fn(&mut EvState) + 'static>| f;
        let _ = l;
        let (e1, e2, e3, e4, e5, e6, e7, e8, e9, e10) = (evr.clone(), evr.clone(), evr.clone(), evr.clone(), evr.clone(), evr.clone(), evr.clone(), evr.clone(), evr.clone(), evr.clone());
        vec![
            rh.t.observe(move |txn, e| e1.lock().unwrap().log.push(format!("t: {}", r_text_event(e, txn)))),
            rh.a.observe(move |txn, e| e2.lock().unwrap().log.push(format!("a: {}", r_array_event(e, txn)))),
            rh.m.observe(move |txn, e| e3.lock().unwrap().log.push(format!("m: {}", r_map_event(e, txn)))),
            rh.x.observe(move |txn, e| e4.lock().unwrap().log.push(format!("x: {}", r_xml_event(e, txn)))),
            rh.a.observe_deep(move |txn, e| e5.lock().unwrap().log.push(r_deep(txn, e))),
            rh.m.observe_deep(move |txn, e| e6.lock().unwrap().log.push(r_deep(txn, e))),
            rh.x.observe_deep(move |txn, e| e7.lock().unwrap().log.push(r_deep(txn, e))),
            (*dc).observe_update_v1(move |_, e| e8.lock().unwrap().updates_v1.push(e.update.clone())).unwrap(),
            (*dc).observe_update_v2(move |_, e| e9.lock().unwrap().updates_v2.push(e.update.clone())).unwrap(),
            (*dc).observe_transaction_cleanup(move |_, e| e10.lock().unwrap().log.push(r_after_txn(e))).unwrap(),
        ]
    };
    // a follower fed only with the v1 updates delivered to the C update callback
    let follower = mk(7);
    let mut fed = 0usize;
    // undo managers over the text
    c!("yundo_manager");
    c!("yundo_manager_add_scope");
    let uo = yffi::YUndoManagerOptions { capture_timeout_millis: 0 };
    let um_c = yffi::yundo_manager(&uo);
    yffi::yundo_manager_add_scope(um_c, dc, tc);
    let mut o = yrs::undo::Options::<()>::default();
    o.capture_timeout_millis = 0;
    let mut um_r = yrs::undo::UndoManager::with_options(o);
    um_r.expand_scope(&dr, &tr);
    let track_origin = rng.bool();
    if track_origin {
        c!("yundo_manager_add_origin");
        yffi::yundo_manager_add_origin(um_c, 2, b"o1".as_ptr() as *const c_char);
        um_r.include_origin("o1");
    }
    c!("yundo_manager_observe_added");
    c!("yundo_manager_observe_popped");
    let us1 = yffi::yundo_manager_observe_added(um_c, evp, ev_undo_added);
    let us2 = yffi::yundo_manager_observe_popped(um_c, evp, ev_undo_popped);
    let undo_r = Arc::new(std::sync::Mutex::new((0u32, 0u32)));
    let (u1, u2) = (undo_r.clone(), undo_r.clone());
    let _us3 = um_r.observe_item_added(move |_, _| u1.lock().unwrap().0 += 1);
    let _us4 = um_r.observe_item_popped(move |_, _| u2.lock().unwrap().1 += 1);
    // handle-level functions on the fresh document
    {
        c!("ydoc_id");
        c!("ydoc_guid");
        c!("ydoc_collection_id");
        c!("ydoc_should_load");
        c!("ydoc_auto_load");
        let g = take_cstr(yffi::ydoc_guid(dc));
        let cid = yffi::ydoc_collection_id(dc);
        if yffi::ydoc_id(dc) != 1 || g != "g" || !cid.is_null() || (yffi::ydoc_should_load(dc) != 0) != (*dc).should_load() || (yffi::ydoc_auto_load(dc) != 0) != (*dc).auto_load() {
            return Outcome { bad: Some(("doc-handle".into(), format!("ydoc_id/guid/collection_id/should_load/auto_load do not reflect the options: id {} guid {:?}", yffi::ydoc_id(dc), g))), calls: 0, log: vec![] };
        }
        c!("ydoc_clone");
        let cl = yffi::ydoc_clone(dc);
        let same_t = yffi::ytext(cl, names[0].as_ptr());
        yffi::ydoc_destroy(cl);
        c!("ybranch_id");
        c!("ybranch_get");
        c!("ybranch_alive");
        c!("ytype_get");
        let txn = yffi::ydoc_write_transaction(dc, 0, std::ptr::null());
        let id = yffi::ybranch_id(ac);
        let back = yffi::ybranch_get(&id, txn);
        let tg = yffi::ytype_get(txn, names[2].as_ptr());
        let w = yffi::ytransaction_writeable(txn);
        yffi::ytransaction_commit(txn);
        if same_t != tc || back != ac || tg != mc || yffi::ybranch_alive(ac) == 0 || w == 0 {
            return Outcome { bad: Some(("doc-handle".into(), format!("handles do not resolve to the same shared types: clone text {} branch_get {} type_get {} alive {} writeable {}", same_t == tc, back == ac, tg == mc, yffi::ybranch_alive(ac), w))), calls: 0, log: vec![] };
        }
        c!("yoptions");
        let yo = yffi::yoptions();
        let d = Options::default();
        let want_flags = if d.offset_kind == OffsetKind::Utf16 { yffi::Y_OFFSET_UTF16 } else { 0 } | if d.skip_gc { yffi::Y_SKIP_GC } else { 0 } | if d.auto_load { yffi::Y_AUTO_LOAD } else { 0 } | if d.should_load { yffi::Y_SHOULD_LOAD } else { 0 } | if d.cleanup_formatting { yffi::Y_CLEANUP_FMT } else { 0 };
        if yo.flags != want_flags || yo.guid.is_null() {
            return Outcome { bad: Some(("doc-handle".into(), format!("yoptions() flags {} differ from the defaults of the Rust API {}", yo.flags, want_flags))), calls: 0, log: vec![] };
        }
        drop(CString::from_raw(yo.guid as *mut c_char));
        c!("ydoc_new");
        let fresh = yffi::ydoc_new();
        if yffi::ydoc_id(fresh) == 0 && false {
            unreachable!();
        }
        yffi::ydoc_destroy(fresh);
    }

    let mut log: Vec<String> = vec![];
    let mut units: Vec<u32> = vec![]; // widths of the text units in the offset kind (embeds = 1)
    let mut alen = 0u32;
    let mut xlen = 0u32;
    let mut bad: Option<(String, String)> = None;
    let mut calls = 0u64;
    let alphabet = ['a', 'ż', '万', '😀'];
    let ulen = |c: char| if utf16 { c.len_utf16() as u32 } else { c.len_utf8() as u32 };
    let steps = rng.usize(4..40);
    for _ in 0..steps {
        let op = rng.u8(0..32);
        if matches!(op, 18..=21 | 28 | 29) {
            // operations outside a user transaction
            match op {
                18 => {
                    // exchange with the Rust-driven peer, either encoding
                    let v2 = rng.bool();
                    let which = rng.u8(0..3);
                    let n = rng.i64(0..9);
                    if multi {
                        let u = (*dc).transact().encode_state_as_update_v1(&peer.transact().state_vector());
                        peer.transact_mut().apply_update(Update::decode_v1(&u).unwrap()).unwrap();
                        let u = dr.transact().encode_state_as_update_v1(&peer_r.transact().state_vector());
                        peer_r.transact_mut().apply_update(Update::decode_v1(&u).unwrap()).unwrap();
                    }
                    for (d, t, a, m) in [(&peer, &tp, &ap, &mp), (&peer_r, &tq, &aq, &mq)] {
                        let mut txn = d.transact_mut();
                        match which {
                            0 => t.push(&mut txn, "p万"),
                            1 => {
                                a.push_back(&mut txn, Any::BigInt(n));
                            }
                            _ => {
                                m.insert(&mut txn, "k1", "peer");
                            }
                        }
                    }
                    // C -> peer
                    let psv = peer.transact().state_vector().encode_v1();
                    c!("ydoc_read_transaction");
                    let txn = yffi::ydoc_read_transaction(dc);
                    let mut len = 0u32;
                    let p = if v2 {
                        c!("ytransaction_state_diff_v2");
                        yffi::ytransaction_state_diff_v2(txn, psv.as_ptr() as *const c_char, psv.len() as u32, &mut len)
                    } else {
                        c!("ytransaction_state_diff_v1");
                        yffi::ytransaction_state_diff_v1(txn, psv.as_ptr() as *const c_char, psv.len() as u32, &mut len)
                    };
                    let bytes = std::slice::from_raw_parts(p as *const u8, len as usize).to_vec();
                    c!("ybinary_destroy");
                    yffi::ybinary_destroy(p, len);
                    // the C side's own state vector through the C API
                    let mut svl = 0u32;
                    c!("ytransaction_state_vector_v1");
                    let svp = yffi::ytransaction_state_vector_v1(txn, &mut svl);
                    let csv = std::slice::from_raw_parts(svp as *const u8, svl as usize).to_vec();
                    yffi::ybinary_destroy(svp, svl);
                    c!("ytransaction_commit");
                    yffi::ytransaction_commit(txn);
                    // same document through the Rust API
                    if StateVector::decode_v1(&csv).ok() != Some((*dc).transact().state_vector()) {
                        bad = Some(("state-vector-differs".into(), "ytransaction_state_vector_v1 differs from the Rust API state vector of the same document".into()));
                    }
                    let u = if v2 { Update::decode_v2(&bytes) } else { Update::decode_v1(&bytes) };
                    match u {
                        Ok(u) => {
                            if let Err(e) = peer.transact_mut().apply_update(u) {
                                bad = Some(("exchange-apply-error".into(), format!("peer cannot apply the diff produced through the C API: {}", e)));
                            }
                        }
                        Err(e) => bad = Some(("exchange-undecodable".into(), format!("diff produced through the C API does not decode: {}", e))),
                    }
                    // peer -> C
                    let back = if v2 { peer.transact().encode_state_as_update_v2(&StateVector::decode_v1(&csv).unwrap_or_default()) } else { peer.transact().encode_state_as_update_v1(&StateVector::decode_v1(&csv).unwrap_or_default()) };
                    c!("ydoc_write_transaction");
                    let txn = yffi::ydoc_write_transaction(dc, 0, std::ptr::null());
                    let rc = if v2 {
                        c!("ytransaction_apply_v2");
                        yffi::ytransaction_apply_v2(txn, back.as_ptr() as *const c_char, back.len() as u32)
                    } else {
                        c!("ytransaction_apply");
                        yffi::ytransaction_apply(txn, back.as_ptr() as *const c_char, back.len() as u32)
                    };
                    yffi::ytransaction_commit(txn);
                    if rc != 0 {
                        bad = Some(("exchange-apply-error".into(), format!("ytransaction_apply{} returned error code {}", if v2 { "_v2" } else { "" }, rc)));
                    }
                    // the all-native world does the same exchange
                    {
                        let sv = peer_r.transact().state_vector();
                        let d = dr.transact().encode_state_as_update_v1(&sv);
                        peer_r.transact_mut().apply_update(Update::decode_v1(&d).unwrap()).unwrap();
                        let sv = dr.transact().state_vector();
                        let d = peer_r.transact().encode_state_as_update_v1(&sv);
                        dr.transact_mut().apply_update(Update::decode_v1(&d).unwrap()).unwrap();
                    }
                    log.push(format!("exchange with peer (v{})", if v2 { 2 } else { 1 }));
                    // keep the local bookkeeping in step with what the peer added
                    let txn = dr.transact();
                    units = tr.diff(&txn, YChange::identity).iter().flat_map(|c| match &c.insert { Out::Any(Any::String(s)) => s.chars().map(|c| ulen(c)).collect::<Vec<u32>>(), _ => vec![1] }).collect();
                    alen = ar.len(&txn);
                    drop(txn);
                    let (d1, d2, d3, d4) = (dump(&*dc), dump(&dr), dump(&peer), dump(&peer_r));
                    if bad.is_none() && (d1 != d3 || d2 != d4 || d1 != d2) {
                        bad = Some(("exchange-not-converged".into(), format!("after exchanging updates through the C API the documents differ from the all-native exchange\n  C:      {}\n  C-peer: {}\n  twin:   {}\n  R-peer: {}", d1, d3, d2, d4)));
                    }
                }
                19 | 20 | 28 if multi => {
                    log.push("(undo manager call skipped in a multi-attribute program)".into());
                }
                19 => {
                    c!("yundo_manager_undo");
                    c!("yundo_manager_undo_stack_len");
                    let rc = yffi::yundo_manager_undo(um_c) != 0;
                    let rr = um_r.undo_blocking();
                    log.push(format!("undo -> {} / {}", rc, rr));
                    if rc != rr || yffi::yundo_manager_undo_stack_len(um_c) as usize != um_r.undo_stack().len() {
                        bad = Some(("undo-differs".into(), format!("yundo_manager_undo returned {} (stack {}), native {} (stack {})", rc, yffi::yundo_manager_undo_stack_len(um_c), rr, um_r.undo_stack().len())));
                    }
                    let txn = dr.transact();
                    units = tr.diff(&txn, YChange::identity).iter().flat_map(|c| match &c.insert { Out::Any(Any::String(s)) => s.chars().map(|c| ulen(c)).collect::<Vec<u32>>(), _ => vec![1] }).collect();
                }
                20 => {
                    c!("yundo_manager_redo");
                    c!("yundo_manager_redo_stack_len");
                    let rc = yffi::yundo_manager_redo(um_c) != 0;
                    let rr = um_r.redo_blocking();
                    log.push(format!("redo -> {} / {}", rc, rr));
                    if rc != rr || yffi::yundo_manager_redo_stack_len(um_c) as usize != um_r.redo_stack().len() {
                        bad = Some(("redo-differs".into(), format!("yundo_manager_redo returned {}, native {}", rc, rr)));
                    }
                    let txn = dr.transact();
                    units = tr.diff(&txn, YChange::identity).iter().flat_map(|c| match &c.insert { Out::Any(Any::String(s)) => s.chars().map(|c| ulen(c)).collect::<Vec<u32>>(), _ => vec![1] }).collect();
                }
                28 => {
                    match rng.u8(0..4) {
                        0 => {
                            log.push("yundo_manager_clear".into());
                            c!("yundo_manager_clear");
                            yffi::yundo_manager_clear(um_c);
                            um_r.clear_all();
                        }
                        1 => {
                            log.push("yundo_manager_stop".into());
                            c!("yundo_manager_stop");
                            yffi::yundo_manager_stop(um_c);
                            um_r.reset();
                        }
                        2 => {
                            log.push("yundo_manager_add_origin(o2)".into());
                            c!("yundo_manager_add_origin");
                            yffi::yundo_manager_add_origin(um_c, 2, b"o2".as_ptr() as *const c_char);
                            um_r.include_origin("o2");
                        }
                        _ => {
                            log.push("yundo_manager_remove_origin(o2)".into());
                            c!("yundo_manager_remove_origin");
                            yffi::yundo_manager_remove_origin(um_c, 2, b"o2".as_ptr() as *const c_char);
                            um_r.exclude_origin("o2");
                        }
                    }
                    if yffi::yundo_manager_undo_stack_len(um_c) as usize != um_r.undo_stack().len() || yffi::yundo_manager_redo_stack_len(um_c) as usize != um_r.redo_stack().len() {
                        bad = Some(("undo-differs".into(), "undo/redo stack lengths differ after an undo manager control call".into()));
                    }
                }
                29 => {
                    // out-of-order delivery: the second of two peer updates first, so that the document holds a pending update
                    let mut caps: Vec<(Vec<u8>, Vec<u8>)> = vec![];
                    {
                        // the peers first learn everything, so that their edits are not concurrent with the document's
                        let u = (*dc).transact().encode_state_as_update_v1(&peer.transact().state_vector());
                        peer.transact_mut().apply_update(Update::decode_v1(&u).unwrap()).unwrap();
                        let u = dr.transact().encode_state_as_update_v1(&peer_r.transact().state_vector());
                        peer_r.transact_mut().apply_update(Update::decode_v1(&u).unwrap()).unwrap();
                    }
                    for (d, t) in [(&peer, &tp), (&peer_r, &tq)] {
                        let sv0 = d.transact().state_vector();
                        t.push(&mut d.transact_mut(), "g1");
                        let sv1 = d.transact().state_vector();
                        let u1 = d.transact().encode_state_as_update_v1(&sv0);
                        t.push(&mut d.transact_mut(), "万2");
                        let u2 = d.transact().encode_state_as_update_v1(&sv1);
                        caps.push((u1, u2));
                    }
                    let (u1, u2) = caps[0].clone();
                    let txn = yffi::ydoc_write_transaction(dc, 0, std::ptr::null());
                    c!("ytransaction_apply");
                    let rc = yffi::ytransaction_apply(txn, u2.as_ptr() as *const c_char, u2.len() as u32);
                    yffi::ytransaction_commit(txn);
                    let txn = yffi::ydoc_read_transaction(dc);
                    c!("ytransaction_pending_update");
                    let pu = yffi::ytransaction_pending_update(txn);
                    c!("ytransaction_pending_ds");
                    let pds = yffi::ytransaction_pending_ds(txn);
                    let c_pending = if pu.is_null() {
                        None
                    } else {
                        let m = &(*pu).missing;
                        let mut miss: Vec<(u64, u32)> = (0..m.entries_count as usize).map(|i| (*m.client_ids.add(i), *m.clocks.add(i))).collect();
                        miss.sort();
                        let bytes = std::slice::from_raw_parts((*pu).update_v1 as *const u8, (*pu).update_len as usize).to_vec();
                        Some((miss, bytes))
                    };
                    let c_has_ds = !pds.is_null();
                    c!("ypending_update_destroy");
                    yffi::ypending_update_destroy(pu);
                    c!("ydelete_set_destroy");
                    if !pds.is_null() {
                        yffi::ydelete_set_destroy(pds);
                    }
                    yffi::ytransaction_commit(txn);
                    {
                        let same = (*dc).transact();
                        let want = same.store().pending_update().map(|p| {
                            let mut miss: Vec<(u64, u32)> = p.missing.iter().map(|(c, k)| (c.get(), *k)).collect();
                            miss.sort();
                            (miss, p.update.encode_v1())
                        });
                        let ok = match (&c_pending, &want) {
                            (None, None) => true,
                            (Some((m1, b)), Some((m2, u))) => m1 == m2 && Update::decode_v1(b).ok() == Update::decode_v1(u).ok(),
                            _ => false,
                        };
                        if !ok || rc != 0 || c_has_ds != same.store().pending_ds().is_some() {
                            bad = Some(("pending-differs".into(), format!("ytransaction_pending_update / pending_ds (present {} / {}) differ from the Rust API view of the same document (present {} / {}), apply rc {}", c_pending.is_some(), c_has_ds, want.is_some(), same.store().pending_ds().is_some(), rc)));
                        }
                    }
                    let txn = yffi::ydoc_write_transaction(dc, 0, std::ptr::null());
                    let rc = yffi::ytransaction_apply(txn, u1.as_ptr() as *const c_char, u1.len() as u32);
                    yffi::ytransaction_commit(txn);
                    if rc != 0 {
                        bad = Some(("exchange-apply-error".into(), format!("ytransaction_apply returned error code {}", rc)));
                    }
                    let (u1, u2) = caps[1].clone();
                    dr.transact_mut().apply_update(Update::decode_v1(&u2).unwrap()).unwrap();
                    dr.transact_mut().apply_update(Update::decode_v1(&u1).unwrap()).unwrap();
                    log.push("out-of-order delivery of two peer updates".into());
                    let txn = dr.transact();
                    units = text_units(&tr, &txn, utf16);
                }
                _ => {
                    // snapshot + state from snapshot (skip_gc documents), sticky index: the values read through the
                    // C API are compared with the Rust API on the very same document after the C transaction is closed
                    let txn = yffi::ydoc_write_transaction(dc, 0, std::ptr::null());
                    let mut c_snap: Option<(Vec<u8>, Option<Vec<u8>>)> = None;
                    if skip_gc {
                        let mut sl = 0u32;
                        c!("ytransaction_snapshot");
                        let sp = yffi::ytransaction_snapshot(txn, &mut sl);
                        let snap = std::slice::from_raw_parts(sp as *const u8, sl as usize).to_vec();
                        let mut ol = 0u32;
                        c!("ytransaction_encode_state_from_snapshot_v1");
                        let op = yffi::ytransaction_encode_state_from_snapshot_v1(txn, sp, sl, &mut ol);
                        let got = if op.is_null() {
                            None
                        } else {
                            let v = std::slice::from_raw_parts(op as *const u8, ol as usize).to_vec();
                            yffi::ybinary_destroy(op, ol);
                            Some(v)
                        };
                        // the v2 variant must restore the same content as the v1 variant
                        let mut ol2 = 0u32;
                        c!("ytransaction_encode_state_from_snapshot_v2");
                        let op2 = yffi::ytransaction_encode_state_from_snapshot_v2(txn, sp, sl, &mut ol2);
                        if let (Some(v1), false) = (&got, op2.is_null()) {
                            let v2 = std::slice::from_raw_parts(op2 as *const u8, ol2 as usize).to_vec();
                            let (f1, f2) = (mk(9), mk(9));
                            let r1 = Update::decode_v1(v1).map(|u| f1.transact_mut().apply_update(u).is_ok()).unwrap_or(false);
                            let r2 = Update::decode_v2(&v2).map(|u| f2.transact_mut().apply_update(u).is_ok()).unwrap_or(false);
                            if !r1 || !r2 || dump(&f1) != dump(&f2) {
                                bad = Some(("snapshot-state-differs".into(), format!("encode_state_from_snapshot_v2 restores {} (ok {}) but the v1 variant restores {} (ok {})", dump(&f2), r2, dump(&f1), r1)));
                            }
                        } else if got.is_some() != !op2.is_null() {
                            bad = Some(("snapshot-state-null".into(), "encode_state_from_snapshot v1 and v2 disagree on refusing".into()));
                        }
                        if !op2.is_null() {
                            yffi::ybinary_destroy(op2, ol2);
                        }
                        yffi::ybinary_destroy(sp, sl);
                        c_snap = Some((snap, got));
                    }
                    // (offset, after, encoded, read-back index through C)
                    let mut c_sticky: Option<(u32, bool, Option<(Vec<u8>, Option<(u32, usize)>)>)> = None;
                    if !units.is_empty() {
                        let p = rng.usize(0..units.len());
                        let off: u32 = units[..p].iter().sum();
                        let after = rng.bool();
                        c!("ysticky_index_from_index");
                        let si = yffi::ysticky_index_from_index(tc, txn, off, if after { 0 } else { -1 });
                        if si.is_null() {
                            c_sticky = Some((off, after, None));
                        } else {
                            let mut l = 0u32;
                            c!("ysticky_index_encode");
                            let b = yffi::ysticky_index_encode(si, &mut l);
                            let enc = std::slice::from_raw_parts(b as *const u8, l as usize).to_vec();
                            c!("ysticky_index_decode");
                            let si2 = yffi::ysticky_index_decode(b, l);
                            let mut ob: *mut yffi::Branch = std::ptr::null_mut();
                            let mut oi = 0u32;
                            c!("ysticky_index_read");
                            yffi::ysticky_index_read(si2, txn, &mut ob, &mut oi);
                            c!("ysticky_index_to_json");
                            let js = yffi::ysticky_index_to_json(si);
                            c!("ysticky_index_from_json");
                            let si3 = yffi::ysticky_index_from_json(js);
                            yffi::ystring_destroy(js);
                            if si3.is_null() {
                                bad = Some(("sticky-differs".into(), "ysticky_index_from_json rejects the output of ysticky_index_to_json".into()));
                            } else {
                                let mut l3 = 0u32;
                                let b3 = yffi::ysticky_index_encode(si3, &mut l3);
                                if std::slice::from_raw_parts(b3 as *const u8, l3 as usize) != &enc[..] {
                                    bad = Some(("sticky-differs".into(), "a sticky index changed across ysticky_index_to_json / ysticky_index_from_json".into()));
                                }
                                yffi::ybinary_destroy(b3, l3);
                                yffi::ysticky_index_destroy(si3);
                            }
                            c!("ysticky_index_assoc");
                            if (yffi::ysticky_index_assoc(si) >= 0) != after {
                                bad = Some(("sticky-differs".into(), "ysticky_index_assoc lost the association".into()));
                            }
                            yffi::ybinary_destroy(b, l);
                            c!("ysticky_index_destroy");
                            yffi::ysticky_index_destroy(si2);
                            yffi::ysticky_index_destroy(si);
                            c_sticky = Some((off, after, Some((enc, if ob.is_null() { None } else { Some((oi, ob as usize)) }))));
                        }
                    }
                    yffi::ytransaction_commit(txn);
                    let same = (*dc).transact();
                    if let Some((snap, got)) = c_snap {
                        let native_snap = same.snapshot();
                        if yrs::Snapshot::decode_v1(&snap).ok().as_ref() != Some(&native_snap) {
                            bad = Some(("snapshot-differs".into(), "ytransaction_snapshot differs from the Rust API snapshot of the same document".into()));
                        }
                        match got {
                            None => bad = Some(("snapshot-state-null".into(), "encode_state_from_snapshot_v1 returned null on a skip_gc document".into())),
                            Some(got) => {
                                use yrs::updates::encoder::Encoder;
                                let mut e = yrs::updates::encoder::EncoderV1::new();
                                same.encode_state_from_snapshot(&native_snap, &mut e).unwrap();
                                // byte equality is too strict (hash-map order inside values): compare what the two payloads restore
                                let want = e.to_vec();
                                if got != want {
                                    let restore = |b: &[u8]| -> String {
                                        let f = mk(9);
                                        match Update::decode_v1(b) {
                                            Ok(u) => {
                                                let r = f.transact_mut().apply_update(u);
                                                match r {
                                                    Ok(_) => dump(&f),
                                                    Err(e) => format!("apply error {}", e),
                                                }
                                            }
                                            Err(e) => format!("decode error {}", e),
                                        }
                                    };
                                    let (a, b) = (restore(&got), restore(&want));
                                    if a != b {
                                        bad = Some(("snapshot-state-differs".into(), format!("ytransaction_encode_state_from_snapshot_v1 restores {} but the Rust API encoding restores {}", a, b)));
                                    }
                                }
                            }
                        }
                    }
                    if let Some((off, after, got)) = c_sticky {
                        let assoc = if after { Assoc::After } else { Assoc::Before };
                        let native = tcr.sticky_index(&same, off, assoc);
                        let want = native.as_ref().map(|n| (n.encode_v1(), n.get_offset(&same).map(|o| (o.index, &*o.branch as *const yrs::branch::Branch as usize))));
                        if got != want {
                            bad = Some(("sticky-differs".into(), format!("sticky index at {} ({:?}) through the C API gives {:?}, the Rust API on the same document {:?}", off, assoc, got, want)));
                        }
                        // and the twin resolves its own index to the same offset (UTF-16 documents only: under byte offsets the
                        // resolved position depends on block layout, known finding D9 of C14, and layouts legitimately differ)
                        if utf16 {
                            let twin = tr.sticky_index(&dr.transact(), off, assoc).and_then(|n| n.get_offset(&dr.transact()).map(|o| o.index));
                            let mine = got.as_ref().and_then(|g| g.1).map(|x| x.0);
                            if mine != twin {
                                bad = Some(("sticky-differs".into(), format!("sticky index at {} ({:?}) reads back {:?} through the C API, {:?} in the native twin", off, assoc, mine, twin)));
                            }
                        }
                    }
                    drop(same);
                    log.push("snapshot/sticky read-backs".into());
                }
            }
            calls += 1;
            if bad.is_none() {
                bad = same_doc_check(dc, &ch, &rh, count);
            }
            if bad.is_none() {
                bad = events_check(evc, &evr, &follower, &mut fed, count);
            }
            if bad.is_none() {
                let r = *undo_r.lock().unwrap();
                if ((*evc).undo_added, (*evc).undo_popped) != r && !multi {
                    bad = Some(("undo-differs".into(), format!("undo manager callbacks registered through the C API fired added/popped {:?}, native {:?}", ((*evc).undo_added, (*evc).undo_popped), r)));
                }
            }
            if bad.is_none() {
                let (d1, d2) = (dump(&*dc), dump(&dr));
                if d1 != d2 {
                    bad = Some(("documents-differ".into(), format!("after the call the C-driven document differs from its native twin\n  C:    {}\n  Rust: {}", d1, d2)));
                }
            }
            if bad.is_some() {
                break;
            }
            continue;
        }
        c!("ydoc_write_transaction");
        let origin: Option<&'static str> = match rng.u8(0..5) {
            0 => None,
            1 => Some("o2"),
            _ => Some("o1"),
        };
        let txn = match origin {
            None => yffi::ydoc_write_transaction(dc, 0, std::ptr::null()),
            Some(o) => yffi::ydoc_write_transaction(dc, o.len() as u32, o.as_ptr() as *const c_char),
        };
        let mut rt = match origin {
            None => dr.transact_mut(),
            Some(o) => dr.transact_mut_with(o),
        };
        if let Some(o) = origin {
            log.push(format!("(origin {})", o));
        }
        let mut arena = Arena::default();
        match op {
            0 | 1 => {
                let p = rng.usize(0..=units.len());
                let off: u32 = units[..p].iter().sum();
                let s: String = (0..rng.usize(1..4)).map(|_| alphabet[rng.usize(0..4)]).collect();
                let cs = arena.cstr(&s);
                if rng.u8(0..3) == 0 {
                    let at = gen_attrs(&mut rng, multi);
                    let attrs = arena.input(&Val::JMap(at.clone()), count);
                    log.push(format!("ytext_insert({},{:?},{:?})", off, s, at));
                    c!("ytext_insert");
                    yffi::ytext_insert(tc, txn, off, cs, &attrs);
                    tr.insert_with_attributes(&mut rt, off, &s, native_attrs(&at));
                } else {
                    log.push(format!("ytext_insert({},{:?})", off, s));
                    c!("ytext_insert");
                    yffi::ytext_insert(tc, txn, off, cs, std::ptr::null());
                    tr.insert(&mut rt, off, &s);
                }
                for (i, ch) in s.chars().enumerate() {
                    units.insert(p + i, ulen(ch));
                }
            }
            2 => {
                if !units.is_empty() {
                    let p = rng.usize(0..units.len());
                    let q = (p + rng.usize(1..4)).min(units.len());
                    let (off, l): (u32, u32) = (units[..p].iter().sum(), units[p..q].iter().sum());
                    log.push(format!("ytext_remove_range({},{})", off, l));
                    c!("ytext_remove_range");
                    yffi::ytext_remove_range(tc, txn, off, l);
                    tr.remove_range(&mut rt, off, l);
                    units.drain(p..q);
                }
            }
            3 => {
                if !units.is_empty() {
                    let p = rng.usize(0..units.len());
                    let q = (p + rng.usize(1..4)).min(units.len());
                    let (off, l): (u32, u32) = (units[..p].iter().sum(), units[p..q].iter().sum());
                    let at = gen_attrs(&mut rng, multi);
                    let attrs = arena.input(&Val::JMap(at.clone()), count);
                    log.push(format!("ytext_format({},{},{:?})", off, l, at));
                    c!("ytext_format");
                    yffi::ytext_format(tc, txn, off, l, &attrs);
                    tr.format(&mut rt, off, l, native_attrs(&at));
                }
            }
            4 => {
                let p = rng.usize(0..=units.len());
                let off: u32 = units[..p].iter().sum();
                let v = Val::JMap(vec![("img".into(), Val::Str("ż.png".into())), ("w".into(), Val::Float(2.5))]);
                let cell = arena.input(&v, count);
                if rng.u8(0..3) == 0 {
                    let at = gen_attrs(&mut rng, multi);
                    let attrs = arena.input(&Val::JMap(at.clone()), count);
                    log.push(format!("ytext_insert_embed({},{:?},{:?})", off, v, at));
                    c!("ytext_insert_embed");
                    yffi::ytext_insert_embed(tc, txn, off, &cell, &attrs);
                    tr.insert_embed_with_attributes(&mut rt, off, to_any(&v), native_attrs(&at));
                } else {
                    log.push(format!("ytext_insert_embed({},{:?})", off, v));
                    c!("ytext_insert_embed");
                    yffi::ytext_insert_embed(tc, txn, off, &cell, std::ptr::null());
                    tr.insert_embed(&mut rt, off, to_any(&v));
                }
                units.insert(p, 1);
            }
            5 | 6 | 7 => {
                let p = rng.u32(0..=alen);
                let k = rng.usize(1..4);
                let vals: Vec<Val> = (0..k).map(|_| gen_val(&mut rng, 0, true)).collect();
                let mut cells: Vec<yffi::YInput> = vals.iter().map(|v| arena.input(v, count)).collect();
                log.push(format!("yarray_insert_range({},{:?})", p, vals));
                c!("yarray_insert_range");
                yffi::yarray_insert_range(ac, txn, p, cells.as_mut_ptr(), k as u32);
                let mut at = p;
                let mut run: Vec<Any> = vec![];
                for v in &vals {
                    match v {
                        Val::YText(_) | Val::YArray(_) | Val::YMap(_) | Val::XElem(_) | Val::XText(_) => {
                            if !run.is_empty() {
                                let n = run.len() as u32;
                                ar.insert_range(&mut rt, at, std::mem::take(&mut run));
                                at += n;
                            }
                            ar.insert(&mut rt, at, to_in(v));
                            at += 1;
                        }
                        other => run.push(to_any(other)),
                    }
                }
                if !run.is_empty() {
                    ar.insert_range(&mut rt, at, run);
                }
                alen += k as u32;
            }
            8 => {
                if alen > 0 {
                    let p = rng.u32(0..alen);
                    let k = rng.u32(1..4).min(alen - p);
                    log.push(format!("yarray_remove_range({},{})", p, k));
                    c!("yarray_remove_range");
                    yffi::yarray_remove_range(ac, txn, p, k);
                    ar.remove_range(&mut rt, p, k);
                    alen -= k;
                }
            }
            9 | 10 | 11 => {
                let key = KEYS[rng.usize(0..KEYS.len())];
                let v = gen_val(&mut rng, 0, true);
                let ck = arena.cstr(key);
                let cell = arena.input(&v, count);
                log.push(format!("ymap_insert({},{:?})", key, v));
                c!("ymap_insert");
                yffi::ymap_insert(mc, txn, ck, &cell);
                mr.insert(&mut rt, key, to_in(&v));
            }
            12 => {
                let key = KEYS[rng.usize(0..KEYS.len())];
                let ck = arena.cstr(key);
                log.push(format!("ymap_remove({})", key));
                c!("ymap_remove");
                let rc = yffi::ymap_remove(mc, txn, ck);
                let rr = mr.remove(&mut rt, key).is_some();
                if (rc == 1) != rr {
                    bad = Some(("return-value".into(), format!("ymap_remove returned {} but the native call removed={}", rc, rr)));
                }
            }
            13 => {
                if rng.u8(0..4) == 0 {
                    log.push("ymap_remove_all".into());
                    c!("ymap_remove_all");
                    yffi::ymap_remove_all(mc, txn);
                    mr.clear(&mut rt);
                }
            }
            14 => {
                let p = rng.u32(0..=xlen);
                let name = ["div", "p", "ż"][rng.usize(0..3)];
                let cn = arena.cstr(name);
                log.push(format!("yxmlelem_insert_elem({},{})", p, name));
                c!("yxmlelem_insert_elem");
                let e = yffi::yxmlelem_insert_elem(xc, txn, p, cn);
                let er = xr.insert(&mut rt, p, XmlElementPrelim::empty(name));
                // attributes + a text child on the new element
                let ak = arena.cstr("id");
                let av = arena.input(&Val::Str("ż1".into()), count);
                c!("yxmlelem_insert_attr");
                yffi::yxmlelem_insert_attr(e, txn, ak, &av);
                er.insert_attribute(&mut rt, "id", "ż1");
                c!("yxmlelem_insert_text");
                let t = yffi::yxmlelem_insert_text(e, txn, 0);
                let tn = er.insert(&mut rt, 0, XmlTextPrelim::new(""));
                let cs = arena.cstr("h万😀");
                c!("yxmltext_insert");
                yffi::yxmltext_insert(t, txn, 0, cs, std::ptr::null());
                tn.insert(&mut rt, 0, "h万😀");
                c!("yxmlelem_child_len");
                if yffi::yxmlelem_child_len(e, txn) != er.len(&rt) {
                    bad = Some(("readback".into(), "yxmlelem_child_len differs".into()));
                }
                c!("yxmlelem_get_attr");
                let o = yffi::yxmlelem_get_attr(e, txn, ak);
                let got = c_cell(o, txn, count, true);
                yffi::youtput_destroy(o);
                let want = er.get_attribute(&rt, "id").map(|o| r_cell(&o, &rt, true)).unwrap_or("<null>".into());
                if got != want {
                    bad = Some(("readback".into(), format!("yxmlelem_get_attr {} vs {}", got, want)));
                }
                xlen += 1;
            }
            15 => {
                if xlen > 0 {
                    let p = rng.u32(0..xlen);
                    log.push(format!("yxmlelem_remove_range({},1)", p));
                    c!("yxmlelem_remove_range");
                    yffi::yxmlelem_remove_range(xc, txn, p, 1);
                    xr.remove_range(&mut rt, p, 1);
                    xlen -= 1;
                }
            }
            16 => {
                if !skip_gc || rng.u8(0..4) == 0 {
                    log.push("ytransaction_force_gc".into());
                    c!("ytransaction_force_gc");
                    yffi::ytransaction_force_gc(txn);
                    rt.gc(None);
                }
            }
            22 => {
                // ytext_insert_delta: retain / delete / insert with attributes
                let mut cells: Vec<yffi::YDeltaIn> = vec![];
                let mut nat: Vec<yrs::types::Delta<In>> = vec![];
                let mut desc = vec![];
                let mut pos = 0usize;
                let mut nu = units.clone();
                let mut at_pos = 0usize; // position in nu
                for _ in 0..rng.usize(1..4) {
                    match rng.u8(0..3) {
                        0 if pos < units.len() => {
                            let q = (pos + rng.usize(1..3)).min(units.len());
                            let l: u32 = units[pos..q].iter().sum();
                            if rng.bool() {
                                let at = gen_attrs(&mut rng, multi);
                                let a = arena.input(&Val::JMap(at.clone()), count);
                                arena.cells.push(vec![a]);
                                let ap = arena.cells.last().unwrap().as_ptr();
                                c!("ydelta_input_retain");
                                cells.push(yffi::ydelta_input_retain(l, ap));
                                nat.push(yrs::types::Delta::Retain(l, Some(Box::new(native_attrs(&at)))));
                                desc.push(format!("retain({},{:?})", l, at));
                            } else {
                                c!("ydelta_input_retain");
                                cells.push(yffi::ydelta_input_retain(l, std::ptr::null()));
                                nat.push(yrs::types::Delta::Retain(l, None));
                                desc.push(format!("retain({})", l));
                            }
                            at_pos += q - pos;
                            pos = q;
                        }
                        1 if pos < units.len() => {
                            let q = (pos + rng.usize(1..3)).min(units.len());
                            let l: u32 = units[pos..q].iter().sum();
                            c!("ydelta_input_delete");
                            cells.push(yffi::ydelta_input_delete(l));
                            nat.push(yrs::types::Delta::Deleted(l));
                            desc.push(format!("delete({})", l));
                            nu.drain(at_pos..at_pos + (q - pos));
                            pos = q;
                        }
                        _ => {
                            let st: String = (0..rng.usize(1..3)).map(|_| alphabet[rng.usize(0..4)]).collect();
                            let v = if rng.u8(0..4) == 0 { Val::JMap(vec![("e".into(), Val::Long(1))]) } else { Val::Str(st.clone()) };
                            let d = arena.input(&v, count);
                            arena.cells.push(vec![d]);
                            let dp = arena.cells.last().unwrap().as_ptr();
                            let at = if rng.bool() { Some(gen_attrs(&mut rng, multi)) } else { None };
                            let ap = match &at {
                                Some(at) => {
                                    let a = arena.input(&Val::JMap(at.clone()), count);
                                    arena.cells.push(vec![a]);
                                    arena.cells.last().unwrap().as_ptr()
                                }
                                None => std::ptr::null(),
                            };
                            c!("ydelta_input_insert");
                            cells.push(yffi::ydelta_input_insert(dp, ap));
                            nat.push(yrs::types::Delta::Inserted(In::Any(to_any(&v)), at.as_ref().map(|a| Box::new(native_attrs(a)))));
                            desc.push(format!("insert({:?},{:?})", v, at));
                            match &v {
                                Val::Str(st) => {
                                    for ch in st.chars() {
                                        nu.insert(at_pos, ulen(ch));
                                        at_pos += 1;
                                    }
                                }
                                _ => {
                                    nu.insert(at_pos, 1);
                                    at_pos += 1;
                                }
                            }
                        }
                    }
                }
                log.push(format!("ytext_insert_delta[{}]", desc.join(", ")));
                c!("ytext_insert_delta");
                yffi::ytext_insert_delta(tc, txn, cells.as_mut_ptr(), cells.len() as u32);
                tr.apply_delta(&mut rt, nat);
                units = nu;
            }
            23 | 24 | 25 | 26 | 27 => {
                // operations on an XML element of the fragment and on its text child
                if xlen > 0 {
                    let i = rng.u32(0..xlen);
                    c!("yxmlelem_get");
                    let ce = yffi::yxmlelem_get(xc, txn, i);
                    let eb = yffi::youtput_read_yxmlelem(ce);
                    let ne = match xr.get(&rt, i) {
                        Some(XmlOut::Element(e)) => Some(e),
                        _ => None,
                    };
                    if eb.is_null() != ne.is_none() {
                        bad = Some(("readback".into(), format!("yxmlelem_get({}) element cell null={} but native element none={}", i, eb.is_null(), ne.is_none())));
                    } else if let Some(ne) = ne {
                        if op == 27 {
                            let key = ["id", "cls", "ż"][rng.usize(0..3)];
                            let ck = arena.cstr(key);
                            if rng.u8(0..3) == 0 {
                                log.push(format!("yxmlelem_remove_attr(x[{}],{})", i, key));
                                c!("yxmlelem_remove_attr");
                                yffi::yxmlelem_remove_attr(eb, txn, ck);
                                ne.remove_attribute(&mut rt, &key);
                            } else {
                                let v = [Val::Str("v万".into()), Val::Str("".into()), Val::Long(5), Val::Bool(true), Val::Float(2.5), Val::Null, Val::JMap(vec![("a".into(), Val::Long(1))])][rng.usize(0..7)].clone();
                                let cell = arena.input(&v, count);
                                log.push(format!("yxmlelem_insert_attr(x[{}],{},{:?})", i, key, v));
                                c!("yxmlelem_insert_attr");
                                yffi::yxmlelem_insert_attr(eb, txn, ck, &cell);
                                ne.insert_attribute(&mut rt, key, to_in(&v));
                            }
                        } else {
                            c!("yxmlelem_first_child");
                            let fc = yffi::yxmlelem_first_child(eb);
                            let tb = if fc.is_null() { std::ptr::null_mut() } else { yffi::youtput_read_yxmltext(fc) };
                            let nt = match ne.first_child() {
                                Some(XmlOut::Text(t)) => Some(t),
                                _ => None,
                            };
                            if tb.is_null() != nt.is_none() {
                                bad = Some(("readback".into(), format!("yxmlelem_first_child(x[{}]) text cell null={} but native none={}", i, tb.is_null(), nt.is_none())));
                            } else if let Some(nt) = nt {
                                let xu = text_units(&nt, &rt, utf16);
                                match op {
                                    23 => {
                                        let p = rng.usize(0..=xu.len());
                                        let off: u32 = xu[..p].iter().sum();
                                        let st: String = (0..rng.usize(1..4)).map(|_| alphabet[rng.usize(0..4)]).collect();
                                        let cs = arena.cstr(&st);
                                        if rng.bool() {
                                            let at = gen_attrs(&mut rng, multi);
                                            let attrs = arena.input(&Val::JMap(at.clone()), count);
                                            log.push(format!("yxmltext_insert(x[{}],{},{:?},{:?})", i, off, st, at));
                                            c!("yxmltext_insert");
                                            yffi::yxmltext_insert(tb, txn, off, cs, &attrs);
                                            nt.insert_with_attributes(&mut rt, off, &st, native_attrs(&at));
                                        } else {
                                            log.push(format!("yxmltext_insert(x[{}],{},{:?})", i, off, st));
                                            c!("yxmltext_insert");
                                            yffi::yxmltext_insert(tb, txn, off, cs, std::ptr::null());
                                            nt.insert(&mut rt, off, &st);
                                        }
                                    }
                                    24 => {
                                        let p = rng.usize(0..=xu.len());
                                        let off: u32 = xu[..p].iter().sum();
                                        let v = Val::JMap(vec![("src".into(), Val::Str("ż".into()))]);
                                        let cell = arena.input(&v, count);
                                        if rng.bool() {
                                            let at = gen_attrs(&mut rng, multi);
                                            let attrs = arena.input(&Val::JMap(at.clone()), count);
                                            log.push(format!("yxmltext_insert_embed(x[{}],{},{:?},{:?})", i, off, v, at));
                                            c!("yxmltext_insert_embed");
                                            yffi::yxmltext_insert_embed(tb, txn, off, &cell, &attrs);
                                            nt.insert_embed_with_attributes(&mut rt, off, to_any(&v), native_attrs(&at));
                                        } else {
                                            log.push(format!("yxmltext_insert_embed(x[{}],{},{:?})", i, off, v));
                                            c!("yxmltext_insert_embed");
                                            yffi::yxmltext_insert_embed(tb, txn, off, &cell, std::ptr::null());
                                            nt.insert_embed(&mut rt, off, to_any(&v));
                                        }
                                    }
                                    25 if !xu.is_empty() => {
                                        let p = rng.usize(0..xu.len());
                                        let q = (p + rng.usize(1..4)).min(xu.len());
                                        let (off, l): (u32, u32) = (xu[..p].iter().sum(), xu[p..q].iter().sum());
                                        let at = gen_attrs(&mut rng, multi);
                                        let attrs = arena.input(&Val::JMap(at.clone()), count);
                                        log.push(format!("yxmltext_format(x[{}],{},{},{:?})", i, off, l, at));
                                        c!("yxmltext_format");
                                        yffi::yxmltext_format(tb, txn, off, l, &attrs);
                                        nt.format(&mut rt, off, l, native_attrs(&at));
                                    }
                                    26 if !xu.is_empty() => {
                                        if rng.bool() {
                                            let p = rng.usize(0..xu.len());
                                            let q = (p + rng.usize(1..3)).min(xu.len());
                                            let (off, l): (u32, u32) = (xu[..p].iter().sum(), xu[p..q].iter().sum());
                                            log.push(format!("yxmltext_remove_range(x[{}],{},{})", i, off, l));
                                            c!("yxmltext_remove_range");
                                            yffi::yxmltext_remove_range(tb, txn, off, l);
                                            nt.remove_range(&mut rt, off, l);
                                        } else {
                                            let key = ["k", "ż"][rng.usize(0..2)];
                                            let ck = arena.cstr(key);
                                            if rng.u8(0..3) == 0 {
                                                log.push(format!("yxmltext_remove_attr(x[{}],{})", i, key));
                                                c!("yxmltext_remove_attr");
                                                yffi::yxmltext_remove_attr(tb, txn, ck);
                                                nt.remove_attribute(&mut rt, &key);
                                            } else {
                                                let v = [Val::Str("v万".into()), Val::Long(5), Val::Bool(false)][rng.usize(0..3)].clone();
                                                let cell = arena.input(&v, count);
                                                log.push(format!("yxmltext_insert_attr(x[{}],{},{:?})", i, key, v));
                                                c!("yxmltext_insert_attr");
                                                yffi::yxmltext_insert_attr(tb, txn, ck, &cell);
                                                nt.insert_attribute(&mut rt, key, to_in(&v));
                                            }
                                            c!("yxmltext_get_attr");
                                            let o = yffi::yxmltext_get_attr(tb, txn, ck);
                                            let got = c_cell(o, txn, count, false);
                                            if !o.is_null() {
                                                yffi::youtput_destroy(o);
                                            }
                                            let want = nt.get_attribute(&rt, key).map(|o| r_cell(&o, &rt, false)).unwrap_or("<null>".into());
                                            if got != want {
                                                bad = Some(("readback".into(), format!("yxmltext_get_attr({}) reads {} but the Rust API returns {}", key, got, want)));
                                            }
                                        }
                                    }
                                    _ => {}
                                }
                            }
                            if !fc.is_null() {
                                yffi::youtput_destroy(fc);
                            }
                        }
                    }
                    if !ce.is_null() {
                        yffi::youtput_destroy(ce as *mut yffi::YOutput);
                    }
                }
            }
            31 => {
                // a sub-document stored under a map key
                let g = ["s1", "s2"][rng.usize(0..2)];
                let cg = arena.cstr(g);
                c!("ydoc_new_with_options");
                let sub = yffi::ydoc_new_with_options(yffi::YOptions { id: 5, guid: cg, collection_id: std::ptr::null(), flags: 0 });
                c!("yinput_ydoc");
                let cell = yffi::yinput_ydoc(sub);
                let ck = arena.cstr("sub");
                log.push(format!("ymap_insert(sub, ydoc {})", g));
                c!("ymap_insert");
                yffi::ymap_insert(mc, txn, ck, &cell);
                let mut o = Options::with_client_id(ClientID::new(5));
                o.guid = g.into();
                mr.insert(&mut rt, "sub", Doc::with_options(o));
                c!("ytransaction_subdocs");
                let mut n = 0u32;
                let sd = yffi::ytransaction_subdocs(txn, &mut n);
                let mut guids: Vec<String> = (0..n as usize).map(|i| take_cstr(yffi::ydoc_guid(*sd.add(i)))).collect();
                guids.sort();
                drop(Vec::from_raw_parts(sd, n as usize, n as usize));
                let mut want: Vec<String> = rt.subdoc_guids().map(|g| g.to_string()).collect();
                want.sort();
                if guids != want {
                    bad = Some(("readback".into(), format!("ytransaction_subdocs lists {:?} but the native transaction lists {:?}", guids, want)));
                }
                yffi::ydoc_destroy(sub);
            }
            30 => {
                match rng.u8(0..3) {
                    0 => {
                        // link to a map entry, stored in the array
                        let key = KEYS[rng.usize(0..KEYS.len())];
                        let ck = arena.cstr(key);
                        c!("ymap_link");
                        let w = yffi::ymap_link(mc, txn, ck);
                        let nw = mr.link(&rt, key);
                        if w.is_null() != nw.is_none() {
                            bad = Some(("weak-differs".into(), format!("ymap_link({}) null={} but the native link none={}", key, w.is_null(), nw.is_none())));
                        } else if let Some(nw) = nw {
                            c!("yinput_weak");
                            let mut cell = yffi::yinput_weak(w);
                            log.push(format!("ymap_link({}) -> yarray_insert_range({})", key, alen));
                            c!("yarray_insert_range");
                            yffi::yarray_insert_range(ac, txn, alen, &mut cell, 1);
                            ar.insert(&mut rt, alen, nw);
                            alen += 1;
                            c!("yarray_get");
                            let o = yffi::yarray_get(ac, txn, alen - 1);
                            c!("youtput_read_yweak");
                            let b = yffi::youtput_read_yweak(o);
                            if b.is_null() {
                                bad = Some(("weak-differs".into(), "the inserted weak link does not read back as a weak-link cell".into()));
                            } else {
                                c!("yweak_deref");
                                let v = yffi::yweak_deref(b, txn);
                                let got = c_cell(v, txn, count, false);
                                if !v.is_null() {
                                    yffi::youtput_destroy(v);
                                }
                                let want = match ar.get(&rt, alen - 1) {
                                    Some(Out::YWeakLink(w)) => yrs::WeakRef::<yrs::MapRef>::from(w).try_deref_value(&rt).map(|o| r_cell(&o, &rt, false)).unwrap_or("<null>".into()),
                                    _ => "<not a link>".into(),
                                };
                                if got != want {
                                    bad = Some(("weak-differs".into(), format!("yweak_deref reads {} but the native link dereferences to {}", got, want)));
                                }
                            }
                            yffi::youtput_destroy(o);
                        }
                    }
                    1 if units.len() >= 2 => {
                        // quotation of a text range, stored under a map key
                        let p = rng.usize(0..units.len() - 1);
                        let q = rng.usize(p + 1..=units.len());
                        let (mut st, mut en): (u32, u32) = (units[..p].iter().sum(), units[..q].iter().sum());
                        c!("ytext_quote");
                        let w = yffi::ytext_quote(tc, txn, &mut st, &mut en, 0, 1);
                        let nw = tr.quote(&rt, st..en).ok();
                        if w.is_null() != nw.is_none() {
                            bad = Some(("weak-differs".into(), format!("ytext_quote({}..{}) null={} but the native quote none={}", st, en, w.is_null(), nw.is_none())));
                        } else if let Some(nw) = nw {
                            let cell = yffi::yinput_weak(w);
                            let ck = arena.cstr("tq");
                            log.push(format!("ytext_quote({}..{}) -> ymap_insert(tq)", st, en));
                            c!("ymap_insert");
                            yffi::ymap_insert(mc, txn, ck, &cell);
                            mr.insert(&mut rt, "tq", nw);
                            let o = yffi::ymap_get(mc, txn, ck);
                            let b = yffi::youtput_read_yweak(o);
                            if b.is_null() {
                                bad = Some(("weak-differs".into(), "the inserted quotation does not read back as a weak-link cell".into()));
                            } else {
                                c!("yweak_string");
                                let got = take_cstr(yffi::yweak_string(b, txn));
                                let want = match mr.get(&rt, "tq") {
                                    Some(Out::YWeakLink(w)) => yrs::WeakRef::<yrs::TextRef>::from(w).get_string(&rt),
                                    _ => "<not a link>".into(),
                                };
                                if got != want {
                                    bad = Some(("weak-differs".into(), format!("yweak_string reads {:?} but the native quotation reads {:?}", got, want)));
                                }
                            }
                            yffi::youtput_destroy(o);
                        }
                    }
                    _ if alen >= 1 => {
                        // quotation of an array range (inclusive bounds), stored under a map key
                        let p = rng.u32(0..alen);
                        let q = rng.u32(p..alen);
                        let (mut st, mut en) = (p, q);
                        c!("yarray_quote");
                        let w = yffi::yarray_quote(ac, txn, &mut st, &mut en, 0, 0);
                        let nw = ar.quote(&rt, p..=q).ok();
                        if w.is_null() != nw.is_none() {
                            bad = Some(("weak-differs".into(), format!("yarray_quote({}..={}) null={} but the native quote none={}", p, q, w.is_null(), nw.is_none())));
                        } else if let Some(nw) = nw {
                            let cell = yffi::yinput_weak(w);
                            let ck = arena.cstr("aq");
                            log.push(format!("yarray_quote({}..={}) -> ymap_insert(aq)", p, q));
                            c!("ymap_insert");
                            yffi::ymap_insert(mc, txn, ck, &cell);
                            mr.insert(&mut rt, "aq", nw);
                            let o = yffi::ymap_get(mc, txn, ck);
                            let b = yffi::youtput_read_yweak(o);
                            if b.is_null() {
                                bad = Some(("weak-differs".into(), "the inserted array quotation does not read back as a weak-link cell".into()));
                            } else {
                                c!("yweak_iter");
                                let it = yffi::yweak_iter(b, txn);
                                let mut got = vec![];
                                loop {
                                    c!("yweak_iter_next");
                                    let e = yffi::yweak_iter_next(it);
                                    if e.is_null() {
                                        break;
                                    }
                                    got.push(c_cell(e, txn, count, false));
                                    yffi::youtput_destroy(e);
                                }
                                c!("yweak_iter_destroy");
                                yffi::yweak_iter_destroy(it);
                                let want: Vec<String> = match mr.get(&rt, "aq") {
                                    Some(Out::YWeakLink(w)) => yrs::WeakRef::<yrs::ArrayRef>::from(w).unquote(&rt).map(|o| r_cell(&o, &rt, false)).collect(),
                                    _ => vec!["<not a link>".into()],
                                };
                                if got != want {
                                    bad = Some(("weak-differs".into(), format!("yweak_iter reads {:?} but the native quotation yields {:?}", got, want)));
                                }
                            }
                            yffi::youtput_destroy(o);
                        }
                    }
                    _ => {}
                }
            }
            _ => {
                // insert into a nested map of the array (through an output cell), if there is one
                for i in 0..alen {
                    if let Some(Out::YMap(nm)) = ar.get(&rt, i) {
                        c!("yarray_get");
                        let o = yffi::yarray_get(ac, txn, i);
                        c!("youtput_read_ymap");
                        let b = yffi::youtput_read_ymap(o);
                        if b.is_null() {
                            bad = Some(("readback".into(), format!("yarray_get({}) is not a map cell but the native element is a YMap", i)));
                        } else {
                            let ck = arena.cstr("n");
                            let v = gen_val(&mut rng, 1, false);
                            let cell = arena.input(&v, count);
                            log.push(format!("nested ymap_insert(a[{}], n, {:?})", i, v));
                            c!("ymap_insert");
                            yffi::ymap_insert(b, txn, ck, &cell);
                            nm.insert(&mut rt, "n", to_in(&v));
                        }
                        c!("youtput_destroy");
                        yffi::youtput_destroy(o);
                        break;
                    }
                }
            }
        }
        calls += 1;
        // read-backs through output cells inside the transaction
        if bad.is_none() {
            c!("ytext_string");
            let s = yffi::ytext_string(tc, txn);
            let cs = CStr::from_ptr(s).to_str().unwrap().to_string();
            c!("ystring_destroy");
            yffi::ystring_destroy(s);
            if cs != tr.get_string(&rt) {
                bad = Some(("readback".into(), format!("ytext_string {:?} vs {:?}", cs, tr.get_string(&rt))));
            }
            c!("ytext_len");
            if yffi::ytext_len(tc, txn) != tr.len(&rt) {
                bad = Some(("readback".into(), format!("ytext_len {} vs {}", yffi::ytext_len(tc, txn), tr.len(&rt))));
            }
            c!("yarray_len");
            if yffi::yarray_len(ac) != ar.len(&rt) {
                bad = Some(("readback".into(), format!("yarray_len {} vs {}", yffi::yarray_len(ac), ar.len(&rt))));
            }
            if alen > 0 {
                let i = rng.u32(0..alen);
                c!("yarray_get");
                let o = yffi::yarray_get(ac, txn, i);
                let got = c_cell(o, txn, count, true);
                yffi::youtput_destroy(o);
                let want = ar.get(&rt, i).map(|o| r_cell(&o, &rt, true)).unwrap_or("<null>".into());
                if got != want {
                    bad = Some(("readback".into(), format!("yarray_get({}) reads {} but the Rust API returns {}", i, got, want)));
                }
                c!("yarray_get_json");
                let j = yffi::yarray_get_json(ac, txn, i);
                if !j.is_null() {
                    let js = CStr::from_ptr(j).to_str().unwrap().to_string();
                    yffi::ystring_destroy(j);
                    let mut w = String::new();
                    if let Some(o) = ar.get(&rt, i) {
                        o.to_json(&rt).to_json(&mut w);
                    }
                    if serde_json::from_str::<serde_json::Value>(&js).ok() != serde_json::from_str::<serde_json::Value>(&w).ok() {
                        bad = Some(("readback".into(), format!("yarray_get_json({}) {:?} vs {:?}", i, js, w)));
                    }
                }
            }
            c!("ymap_len");
            if yffi::ymap_len(mc, txn) != mr.len(&rt) {
                bad = Some(("readback".into(), format!("ymap_len {} vs {}", yffi::ymap_len(mc, txn), mr.len(&rt))));
            }
            let key = KEYS[rng.usize(0..KEYS.len())];
            let ck = arena.cstr(key);
            c!("ymap_get");
            let o = yffi::ymap_get(mc, txn, ck);
            let got = c_cell(o, txn, count, true);
            yffi::youtput_destroy(o);
            let want = mr.get(&rt, key).map(|o| r_cell(&o, &rt, true)).unwrap_or("<null>".into());
            if got != want {
                bad = Some(("readback".into(), format!("ymap_get({}) reads {} but the Rust API returns {}", key, got, want)));
            }
            c!("ymap_get_json");
            let j = yffi::ymap_get_json(mc, txn, ck);
            let got = if j.is_null() { None } else { Some(take_cstr(j)) };
            let want = mr.get(&rt, key).and_then(|o| serde_json::to_string(&o.to_json(&rt)).ok());
            let same = match (&got, &want) {
                (None, None) => true,
                (Some(a), Some(b)) => match (serde_json::from_str::<serde_json::Value>(a), serde_json::from_str::<serde_json::Value>(b)) {
                    (Ok(x), Ok(y)) => x == y,
                    _ => a.len() == b.len(),
                },
                _ => false,
            };
            if !same {
                bad = Some(("readback".into(), format!("ymap_get_json({}) gives {:?} but the Rust API value serialises to {:?}", key, got, want)));
            }
        }
        drop(rt);
        c!("ytransaction_commit");
        yffi::ytransaction_commit(txn);
        drop(arena);
        if std::env::var("YFFI_STRUCT").is_ok() {
            let f = |d: &Doc| -> Vec<String> {
                let mut v: Vec<_> = yrs::verif::store_blocks(&d.transact()).into_iter().collect();
                v.sort_by_key(|b| (b.id.client, b.id.clock));
                v.iter().map(|b| format!("{}:{}+{} k{} c{} d{} o{:?} r{:?} {:?}", b.id.client, b.id.clock, b.len, b.kind, b.content, b.deleted, b.origin, b.right_origin, b.parent_sub)).collect()
            };
            let (a, b) = (f(&*dc), f(&dr));
            if a != b {
                eprintln!("STRUCT DIFF after {:?}", log.last());
                for i in 0..a.len().max(b.len()) {
                    if a.get(i) != b.get(i) {
                        eprintln!("   C {:?}\n   R {:?}", a.get(i), b.get(i));
                    }
                }
            }
        }
        if bad.is_none() {
            bad = same_doc_check(dc, &ch, &rh, count);
        }
        if bad.is_none() {
            bad = events_check(evc, &evr, &follower, &mut fed, count);
        }
        if bad.is_none() {
            let r = *undo_r.lock().unwrap();
            if ((*evc).undo_added, (*evc).undo_popped) != r && !multi {
                bad = Some(("undo-differs".into(), format!("undo manager callbacks registered through the C API fired added/popped {:?}, native {:?}", ((*evc).undo_added, (*evc).undo_popped), r)));
            }
        }
        if bad.is_none() {
            let (d1, d2) = (dump(&*dc), dump(&dr));
            if d1 != d2 {
                bad = Some(("documents-differ".into(), format!("after the call the C-driven document differs from its native twin\n  C:    {}\n  Rust: {}", d1, d2)));
            }
            let er = *ev_r.lock().unwrap();
            if ev_c != er && !multi {
                bad = Some(("observer-counts-differ".into(), format!("observers registered through the C API fired {:?} times, native observers {:?}", ev_c, er)));
            }
        }
        if bad.is_some() {
            break;
        }
    }
    // encoded state through C vs native: same bytes, or at least the same effect
    if bad.is_none() {
        let txn = yffi::ydoc_read_transaction(dc);
        let mut len = 0u32;
        let p = yffi::ytransaction_state_diff_v1(txn, std::ptr::null(), 0, &mut len);
        let bytes = std::slice::from_raw_parts(p as *const u8, len as usize).to_vec();
        yffi::ybinary_destroy(p, len);
        yffi::ytransaction_commit(txn);
        let native = dr.transact().encode_state_as_update_v1(&StateVector::default());
        if bytes != native {
            let f = mk(9);
            f.get_or_insert_text("t");
            match Update::decode_v1(&bytes) {
                Ok(u) => {
                    f.transact_mut().apply_update(u).unwrap();
                    if dump(&f) != dump(&dr) {
                        bad = Some(("encoded-state-differs".into(), "the state encoded through the C API applies to different content than the twin's".into()));
                    }
                }
                Err(e) => bad = Some(("encoded-state-differs".into(), format!("state encoded through the C API does not decode: {}", e))),
            }
        }
    }
    if bad.is_none() {
        let (d1, d2) = (dump(&*dc), dump(&follower));
        if d1 != d2 {
            bad = Some(("update-stream-incomplete".into(), format!("a follower fed with every update delivered to the ydoc_observe_updates_v1 callback differs from the document\n  doc:      {}\n  follower: {}", d1, d2)));
        }
    }
    for s in csubs {
        yffi::yunobserve(s);
    }
    yffi::yunobserve(us1);
    yffi::yunobserve(us2);
    drop(rsubs);
    drop(Box::from_raw(evc));
    c!("yunobserve");
    yffi::yunobserve(s1);
    yffi::yunobserve(s2);
    yffi::yunobserve(s3);
    c!("yundo_manager_destroy");
    yffi::yundo_manager_destroy(um_c);
    c!("ydoc_destroy");
    yffi::ydoc_destroy(dc);
    let _ = XmlOut::Fragment(xr);
    Outcome { bad, calls, log }
}

fn main() {
    let args: Vec<String> = std::env::args().collect();
    let mut kv: HashMap<String, String> = HashMap::new();
    let mut i = 1;
    while i + 1 < args.len() {
        if let Some(k) = args[i].strip_prefix("--") {
            kv.insert(k.to_string(), args[i + 1].clone());
            i += 2;
        } else {
            i += 1;
        }
    }
    let get = |k: &str, d: u64| kv.get(k).and_then(|v| v.parse().ok()).unwrap_or(d);
    let (seed, from, count) = (get("seed", 1), get("from", 0), get("count", 100));
    let out = kv.get("out").cloned().unwrap_or_default();
    let progress = kv.get("progress").cloned().unwrap_or_default();
    let replay_dir = kv.get("replay-dir").cloned().unwrap_or("/verif/replays".into());
    let tier = kv.get("tier").cloned().unwrap_or("quick".into());
    let verbose = kv.contains_key("verbose");
    let mut fn_calls: BTreeMap<String, u64> = BTreeMap::new();
    let mut violations = vec![];
    let mut hashes = vec![];
    let mut samples = vec![];
    let mut seen: Vec<String> = vec![];
    let mut calls = 0u64;
    for idx in from..from + count {
        if !progress.is_empty() {
            if let Ok(mut f) = std::fs::File::create(&progress) {
                let _ = writeln!(f, "{}", idx);
            }
        }
        let hseed = seed.wrapping_mul(0x9E3779B97F4A7C15) ^ idx.wrapping_mul(0xD1B54A32D192ED03);
        let o = unsafe { run(hseed, &mut fn_calls) };
        calls += o.calls;
        let mut h: u64 = 0xcbf29ce484222325;
        for b in o.log.join("\n").bytes() {
            h ^= b as u64;
            h = h.wrapping_mul(0x100000001b3);
        }
        hashes.push(h);
        if verbose {
            for l in &o.log {
                println!("  {}", l);
            }
        }
        if samples.len() < 2 && o.bad.is_none() {
            samples.push(json!({"idx": idx, "calls": o.log.iter().take(25).collect::<Vec<_>>()}));
        }
        if let Some((k, d)) = o.bad {
            let detail = format!("{} ;; calls: {}", d, o.log[o.log.len().saturating_sub(6)..].join(" ; "));
            if verbose {
                println!("REPLAY violation property=C19 kind={}\n{}", k, detail);
            }
            let mut entry = json!({"prop": "C19", "kind": k, "detail": detail, "idx": idx});
            if !seen.contains(&k) {
                seen.push(k.clone());
                let _ = std::fs::create_dir_all(&replay_dir);
                let path = format!("{}/C19-{}-s{}-i{}.json", replay_dir, k.replace(|c: char| !c.is_alphanumeric(), "_"), seed, idx);
                let doc = json!({"workload": "crash", "prop": "C19", "tier": tier, "seed": seed, "idx": idx, "cmd_workload": "@yffimon", "cmd_args": ["--verbose", "1"],
                    "violation": {"prop": "C19", "kind": k, "detail": detail}, "log": o.log});
                if std::fs::write(&path, serde_json::to_string_pretty(&doc).unwrap()).is_ok() {
                    entry["replay"] = json!(path);
                }
            }
            if violations.len() < 3000 && violations.iter().filter(|v: &&serde_json::Value| v["kind"] == entry["kind"]).count() < 25 {
                violations.push(entry);
            }
        }
    }
    let mut counters: BTreeMap<String, u64> = fn_calls.iter().map(|(k, v)| (format!("fn_{}", k), *v)).collect();
    counters.insert("api_calls".into(), calls);
    counters.insert("max_exported_functions_covered".into(), fn_calls.len() as u64);
    if verbose {
        std::process::exit(if violations.is_empty() { 0 } else { 1 });
    }
    let summary = json!({"workload": "yffimon", "prop": "C19", "tier": tier, "seed": seed, "from": from, "count": count,
        "evaluations": count, "hashes": hashes, "counters": counters, "violations": violations, "samples": samples, "harness_errors": []});
    let text = serde_json::to_string(&summary).unwrap();
    if out.is_empty() {
        println!("{}", text);
    } else {
        std::fs::write(&out, text).unwrap();
    }
}
