//! Execution of `Call`s against a real document. Every call is resolved against the live state
//! (selectors modulo current sizes, positions on unit boundaries of the replica's offset kind),
//! invoked through the public API, and described as a list of semantic `Effect`s that reference
//! models and monitors consume.
use crate::dump::*;
use crate::prog::*;
use crate::util::tag_char;
use std::collections::{BTreeMap, HashMap};
use std::sync::Arc;
use yrs::types::xml::XmlIn;
use yrs::types::{Attrs, Delta};
use yrs::{
    Any, Array, ArrayPrelim, Doc, In, Map, MapPrelim, OffsetKind, Options, Out, Text, TextPrelim, TextRef,
    TransactionMut, Xml, XmlElementPrelim, XmlFragment, XmlTextPrelim,
};

pub type Cid = String;

/// Initial content of a freshly inserted nested type.
#[derive(Clone, Debug, PartialEq)]
pub enum Init {
    Text(String),
    Array(Vec<String>),
    Map(Vec<(String, String)>),
    XElem(String),
    XText(String),
}

/// An inserted value: primitive (by label), nested type (by container id + initial content), sub-doc.
#[derive(Clone, Debug, PartialEq)]
pub enum Item {
    Prim(String),
    Nested(Cid, Init),
    Doc(String),
}

#[derive(Clone, Debug, PartialEq)]
pub enum AttrMode {
    /// plain insert: inherits the attributes of the unit on its left (none at index 0)
    Inherit,
    /// exactly these (non-null) attributes
    Exact(BTreeMap<String, String>),
}

#[derive(Clone, Debug, PartialEq)]
pub enum Effect {
    TextInsert { c: Cid, at: usize, s: String, attrs: AttrMode },
    TextEmbed { c: Cid, at: usize, item: Item, attrs: AttrMode },
    TextFormat { c: Cid, at: usize, len: usize, key: String, val: Option<String> },
    TextRemove { c: Cid, at: usize, len: usize },
    SeqInsert { c: Cid, at: usize, items: Vec<Item> },
    SeqRemove { c: Cid, at: usize, len: usize },
    MapSet { c: Cid, key: String, item: Item },
    MapRemove { c: Cid, key: String },
    MapClear { c: Cid },
    /// a quotation of a sequence range stored under a key of the root map (C20)
    Quote { key: String, wid: Cid, src: Cid, text: bool, start: Option<(u64, u32)>, end: Option<(u64, u32)>, end_incl: bool, desc: String },
    /// a link to a map entry stored in the root array (C20)
    Link { wid: Cid, src: Cid, key: String, uid: (u64, u32) },
    /// a call that was resolved to nothing (empty target, no such type): no effect
    Nop,
}

pub struct OpCtx<'a> {
    pub tagn: &'a mut u32,
    pub kind: OffsetKind,
    pub log: &'a mut Vec<String>,
    pub rid: u64,
    pub max_depth: u32,
    pub ascii: bool,
    pub nchars: &'a mut u32,
}

impl<'a> OpCtx<'a> {
    fn tag(&mut self) -> u32 {
        *self.tagn += 1;
        *self.tagn
    }
    fn chars(&mut self, n: usize) -> String {
        (0..n)
            .map(|_| {
                *self.nchars += 1;
                if self.ascii && *self.nchars <= 62 {
                    // class 0 of tag_char: index = n / 4
                    tag_char((*self.nchars - 1) * 4)
                } else if self.ascii {
                    tag_char(4 * (*self.nchars) + 1)
                } else {
                    tag_char(self.tag())
                }
            })
            .collect()
    }
}

pub const ATTR_KEYS: [&str; 3] = ["b", "i", "c"];

pub fn attr_of(a: &AttrSel) -> (String, Any) {
    let k = ATTR_KEYS[(a.key % 3) as usize].to_string();
    let v = match a.val % 4 {
        0 => Any::Null,
        1 => Any::Bool(true),
        2 => Any::from("x"),
        _ => Any::from(7.0),
    };
    (k, v)
}

fn attrs_of(a: &AttrSel) -> Attrs {
    let (k, v) = attr_of(a);
    let mut m: Attrs = HashMap::new();
    m.insert(Arc::from(k.as_str()), v);
    m
}

fn exact_of(a: &AttrSel) -> BTreeMap<String, String> {
    let (k, v) = attr_of(a);
    let mut m = BTreeMap::new();
    if v != Any::Null {
        m.insert(k, any_str(&v));
    }
    m
}

fn cid(h: &Handle) -> Cid {
    format!("{:?}", h.id())
}

pub fn key_name(k: u8) -> String {
    format!("k{}", k)
}

fn offs(units: &[Unit], upto: usize, kind: OffsetKind) -> u32 {
    units[..upto].iter().map(|u| u.len(kind)).sum()
}

fn pick<'h>(types: &'h [(Handle, u32)], kinds: &[&str], sel: u32) -> Option<&'h (Handle, u32)> {
    let c: Vec<&(Handle, u32)> = types.iter().filter(|(h, _)| kinds.contains(&h.kind())).collect();
    if c.is_empty() {
        None
    } else {
        Some(c[(sel as usize) % c.len()])
    }
}

/// Builds an input value; returns it with the description of what it will contain.
fn make_in(val: &Val, ctx: &mut OpCtx, depth: u32) -> (In, Item) {
    let val = if depth >= ctx.max_depth { &Val::Prim } else { val };
    match val {
        Val::Text(n) => {
            let s = ctx.chars(*n as usize);
            (In::from(TextPrelim::new(s.clone())), Item::Nested(String::new(), Init::Text(s)))
        }
        Val::Array(n) => {
            let vals: Vec<u32> = (0..*n).map(|_| ctx.tag()).collect();
            let labels = vals.iter().map(|v| any_str(&Any::from(*v))).collect();
            (
                In::Array(ArrayPrelim::from(vals.iter().map(|v| In::Any(Any::from(*v))).collect::<Vec<In>>())),
                Item::Nested(String::new(), Init::Array(labels)),
            )
        }
        Val::Map(n) => {
            let mut m: HashMap<String, In> = HashMap::new();
            let mut d = vec![];
            for i in 0..*n {
                let v = ctx.tag();
                m.insert(format!("x{}", i), In::Any(Any::from(v)));
                d.push((format!("x{}", i), any_str(&Any::from(v))));
            }
            (In::Map(m.into_iter().collect::<MapPrelim>()), Item::Nested(String::new(), Init::Map(d)))
        }
        Val::Doc => {
            let guid = format!("sub{}", ctx.tag());
            let mut o = Options::default();
            o.guid = guid.clone().into();
            (In::Doc(Doc::with_options(o)), Item::Doc(guid))
        }
        _ => {
            let v = ctx.tag();
            (In::Any(Any::from(v)), Item::Prim(any_str(&Any::from(v))))
        }
    }
}

/// Sub-documents are inserted as `Doc` preliminaries (the documented way), everything else as `In`.
fn sub_doc(item: &Item) -> Option<Doc> {
    if let Item::Doc(guid) = item {
        let mut o = Options::default();
        o.guid = guid.clone().into();
        Some(Doc::with_options(o))
    } else {
        None
    }
}

fn fix_item(item: Item, out: &Out) -> Item {
    match item {
        Item::Nested(_, init) => match Handle::from_out(out) {
            Some(h) => Item::Nested(cid(&h), init),
            None => Item::Nested("?".into(), init),
        },
        other => other,
    }
}

fn make_xml(val: &Val, ctx: &mut OpCtx) -> (XmlIn, Init) {
    match val {
        Val::XText(n) => {
            let s = ctx.chars(*n as usize);
            (XmlIn::from(XmlTextPrelim::new(s.clone())), Init::XText(s))
        }
        _ => {
            let tag = format!("n{}", ctx.tag());
            (XmlIn::from(XmlElementPrelim::empty(tag.as_str())), Init::XElem(tag))
        }
    }
}

/// Executes one call. Returns the effects (possibly `Nop`).
pub fn exec_call(call: &Call, roots: &Roots, txn: &mut TransactionMut, ctx: &mut OpCtx) -> Vec<Effect> {
    let types = live_types(roots, txn);
    let kind = ctx.kind;
    match call {
        Call::TInsert { ty, pos, n } => {
            let Some((h, _)) = pick(&types, &["text", "xtext"], *ty) else { return vec![Effect::Nop] };
            let t = h.as_text().unwrap();
            let units = text_units(&t, txn);
            let at = (*pos as usize) % (units.len() + 1);
            let s = ctx.chars(*n as usize);
            ctx.log.push(format!("r{} {}.insert(unit {}, {:?})", ctx.rid, cid(h), at, s));
            t.insert(txn, offs(&units, at, kind), &s);
            vec![Effect::TextInsert { c: cid(h), at, s, attrs: AttrMode::Inherit }]
        }
        Call::TPush { ty, n } => {
            let Some((h, _)) = pick(&types, &["text", "xtext"], *ty) else { return vec![Effect::Nop] };
            let t = h.as_text().unwrap();
            let units = text_units(&t, txn);
            let s = ctx.chars(*n as usize);
            ctx.log.push(format!("r{} {}.push({:?})", ctx.rid, cid(h), s));
            t.push(txn, &s);
            vec![Effect::TextInsert { c: cid(h), at: units.len(), s, attrs: AttrMode::Inherit }]
        }
        Call::TInsertAttr { ty, pos, n, attr } => {
            let Some((h, _)) = pick(&types, &["text", "xtext"], *ty) else { return vec![Effect::Nop] };
            let t = h.as_text().unwrap();
            let units = text_units(&t, txn);
            let at = (*pos as usize) % (units.len() + 1);
            let s = ctx.chars(*n as usize);
            ctx.log.push(format!("r{} {}.insert_with_attributes(unit {}, {:?}, {:?})", ctx.rid, cid(h), at, s, attr_of(attr)));
            t.insert_with_attributes(txn, offs(&units, at, kind), &s, attrs_of(attr));
            vec![Effect::TextInsert { c: cid(h), at, s, attrs: AttrMode::Exact(exact_of(attr)) }]
        }
        Call::TEmbed { ty, pos, attr, val } => {
            let Some((h, d)) = pick(&types, &["text", "xtext"], *ty) else { return vec![Effect::Nop] };
            let t = h.as_text().unwrap();
            let units = text_units(&t, txn);
            let at = (*pos as usize) % (units.len() + 1);
            let off = offs(&units, at, kind);
            let val = if *d + 1 >= ctx.max_depth { &Val::Prim } else { val };
            ctx.log.push(format!("r{} {}.insert_embed(unit {}, {:?}, {:?})", ctx.rid, cid(h), at, val, attr.as_ref().map(attr_of)));
            let mode = match attr {
                None => AttrMode::Inherit,
                Some(a) => AttrMode::Exact(exact_of(a)),
            };
            let item = match val {
                Val::Text(n) => {
                    let s = ctx.chars(*n as usize);
                    let p = TextPrelim::new(s.clone());
                    let r = match attr {
                        None => t.insert_embed(txn, off, p),
                        Some(a) => t.insert_embed_with_attributes(txn, off, p, attrs_of(a)),
                    };
                    Item::Nested(cid(&Handle::Text(r)), Init::Text(s))
                }
                Val::Array(n) => {
                    let vals: Vec<u32> = (0..*n).map(|_| ctx.tag()).collect();
                    let p = ArrayPrelim::from(vals.clone());
                    let r = match attr {
                        None => t.insert_embed(txn, off, p),
                        Some(a) => t.insert_embed_with_attributes(txn, off, p, attrs_of(a)),
                    };
                    Item::Nested(cid(&Handle::Array(r)), Init::Array(vals.iter().map(|v| any_str(&Any::from(*v))).collect()))
                }
                Val::Map(n) => {
                    let mut m: HashMap<String, Any> = HashMap::new();
                    let mut dsc = vec![];
                    for i in 0..*n {
                        let v = ctx.tag();
                        m.insert(format!("x{}", i), Any::from(v));
                        dsc.push((format!("x{}", i), any_str(&Any::from(v))));
                    }
                    let p: MapPrelim = m.into_iter().collect();
                    let r = match attr {
                        None => t.insert_embed(txn, off, p),
                        Some(a) => t.insert_embed_with_attributes(txn, off, p, attrs_of(a)),
                    };
                    Item::Nested(cid(&Handle::Map(r)), Init::Map(dsc))
                }
                _ => {
                    let v = Any::from(ctx.tag());
                    match attr {
                        None => {
                            t.insert_embed(txn, off, v.clone());
                        }
                        Some(a) => {
                            t.insert_embed_with_attributes(txn, off, v.clone(), attrs_of(a));
                        }
                    }
                    Item::Prim(any_str(&v))
                }
            };
            vec![Effect::TextEmbed { c: cid(h), at, item, attrs: mode }]
        }
        Call::TFormat { ty, pos, len, attr } => {
            let Some((h, _)) = pick(&types, &["text", "xtext"], *ty) else { return vec![Effect::Nop] };
            let t = h.as_text().unwrap();
            let units = text_units(&t, txn);
            if units.is_empty() {
                return vec![Effect::Nop];
            }
            let at = (*pos as usize) % units.len();
            let end = (at + *len as usize).min(units.len());
            let (k, v) = attr_of(attr);
            ctx.log.push(format!("r{} {}.format(units {}..{}, {}={})", ctx.rid, cid(h), at, end, k, any_str(&v)));
            t.format(txn, offs(&units, at, kind), offs(&units, end, kind) - offs(&units, at, kind), attrs_of(attr));
            vec![Effect::TextFormat {
                c: cid(h),
                at,
                len: end - at,
                key: k,
                val: if v == Any::Null { None } else { Some(any_str(&v)) },
            }]
        }
        Call::TRemove { ty, pos, len } => {
            let Some((h, _)) = pick(&types, &["text", "xtext"], *ty) else { return vec![Effect::Nop] };
            let t = h.as_text().unwrap();
            let units = text_units(&t, txn);
            if units.is_empty() {
                return vec![Effect::Nop];
            }
            let at = (*pos as usize) % units.len();
            let end = (at + *len as usize).min(units.len());
            ctx.log.push(format!("r{} {}.remove_range(units {}..{})", ctx.rid, cid(h), at, end));
            t.remove_range(txn, offs(&units, at, kind), offs(&units, end, kind) - offs(&units, at, kind));
            vec![Effect::TextRemove { c: cid(h), at, len: end - at }]
        }
        Call::TDelta { ty, ops } => {
            let Some((h, _)) = pick(&types, &["text", "xtext"], *ty) else { return vec![Effect::Nop] };
            let t = h.as_text().unwrap();
            let units = text_units(&t, txn);
            let mut cur = 0usize; // cursor in the original units
            let mut mcur = 0usize; // cursor in the model (after earlier effects of this delta)
            let mut delta: Vec<Delta<In>> = vec![];
            let mut eff = vec![];
            for op in ops {
                match op {
                    DOp::Retain(n, a) => {
                        let k = (*n as usize).min(units.len() - cur);
                        if k == 0 {
                            continue;
                        }
                        let l = offs(&units, cur + k, kind) - offs(&units, cur, kind);
                        match a {
                            None => delta.push(Delta::Retain(l, None)),
                            Some(a) => {
                                delta.push(Delta::Retain(l, Some(Box::new(attrs_of(a)))));
                                let (key, v) = attr_of(a);
                                eff.push(Effect::TextFormat {
                                    c: cid(h),
                                    at: mcur,
                                    len: k,
                                    key,
                                    val: if v == Any::Null { None } else { Some(any_str(&v)) },
                                });
                            }
                        }
                        cur += k;
                        mcur += k;
                    }
                    DOp::Insert(n, a) => {
                        let s = ctx.chars(*n as usize);
                        let exact = a.as_ref().map(exact_of).unwrap_or_default();
                        delta.push(Delta::Inserted(
                            In::Any(Any::from(s.as_str())),
                            a.as_ref().map(|a| Box::new(attrs_of(a))),
                        ));
                        eff.push(Effect::TextInsert { c: cid(h), at: mcur, s: s.clone(), attrs: AttrMode::Exact(exact) });
                        mcur += s.chars().count();
                    }
                    DOp::Embed(a) => {
                        // apply_delta treats a non-string `Any` as an embed; a map value is the usual form
                        let v = ctx.tag();
                        let any = Any::from(HashMap::from([("e".to_string(), Any::from(v))]));
                        let exact = a.as_ref().map(exact_of).unwrap_or_default();
                        delta.push(Delta::Inserted(In::Any(any.clone()), a.as_ref().map(|a| Box::new(attrs_of(a)))));
                        eff.push(Effect::TextEmbed {
                            c: cid(h),
                            at: mcur,
                            item: Item::Prim(any_str(&any)),
                            attrs: AttrMode::Exact(exact),
                        });
                        mcur += 1;
                    }
                    DOp::Delete(n) => {
                        let k = (*n as usize).min(units.len() - cur);
                        if k == 0 {
                            continue;
                        }
                        let l = offs(&units, cur + k, kind) - offs(&units, cur, kind);
                        delta.push(Delta::Deleted(l));
                        eff.push(Effect::TextRemove { c: cid(h), at: mcur, len: k });
                        cur += k;
                    }
                }
            }
            if delta.is_empty() {
                return vec![Effect::Nop];
            }
            ctx.log.push(format!("r{} {}.apply_delta({:?})", ctx.rid, cid(h), eff));
            t.apply_delta(txn, delta);
            eff
        }
        Call::AInsert { ty, pos, val } => {
            let Some((h, d)) = pick(&types, &["array"], *ty) else { return vec![Effect::Nop] };
            let Handle::Array(a) = h else { return vec![Effect::Nop] };
            let at = *pos % (a.len(txn) + 1);
            let (inp, item) = make_in(val, ctx, *d + 1);
            ctx.log.push(format!("r{} {}.insert({}, {:?})", ctx.rid, cid(h), at, item));
            let out = match sub_doc(&item) {
                Some(d) => Out::YDoc(a.insert(txn, at, d)),
                None => a.insert(txn, at, inp),
            };
            vec![Effect::SeqInsert { c: cid(h), at: at as usize, items: vec![fix_item(item, &out)] }]
        }
        Call::AInsertRange { ty, pos, n } => {
            let Some((h, _)) = pick(&types, &["array"], *ty) else { return vec![Effect::Nop] };
            let Handle::Array(a) = h else { return vec![Effect::Nop] };
            let at = *pos % (a.len(txn) + 1);
            let vals: Vec<u32> = (0..*n).map(|_| ctx.tag()).collect();
            ctx.log.push(format!("r{} {}.insert_range({}, {:?})", ctx.rid, cid(h), at, vals));
            a.insert_range(txn, at, vals.clone());
            vec![Effect::SeqInsert {
                c: cid(h),
                at: at as usize,
                items: vals.iter().map(|v| Item::Prim(any_str(&Any::from(*v)))).collect(),
            }]
        }
        Call::APush { ty, front, val } => {
            let Some((h, d)) = pick(&types, &["array"], *ty) else { return vec![Effect::Nop] };
            let Handle::Array(a) = h else { return vec![Effect::Nop] };
            let len = a.len(txn);
            let (inp, item) = make_in(val, ctx, *d + 1);
            ctx.log.push(format!("r{} {}.push_{}({:?})", ctx.rid, cid(h), if *front { "front" } else { "back" }, item));
            let out = match sub_doc(&item) {
                Some(d) => Out::YDoc(if *front { a.push_front(txn, d) } else { a.push_back(txn, d) }),
                None => {
                    if *front {
                        a.push_front(txn, inp)
                    } else {
                        a.push_back(txn, inp)
                    }
                }
            };
            vec![Effect::SeqInsert {
                c: cid(h),
                at: if *front { 0 } else { len as usize },
                items: vec![fix_item(item, &out)],
            }]
        }
        Call::ARemove { ty, pos } => {
            let Some((h, _)) = pick(&types, &["array"], *ty) else { return vec![Effect::Nop] };
            let Handle::Array(a) = h else { return vec![Effect::Nop] };
            let len = a.len(txn);
            if len == 0 {
                return vec![Effect::Nop];
            }
            let at = *pos % len;
            ctx.log.push(format!("r{} {}.remove({})", ctx.rid, cid(h), at));
            a.remove(txn, at);
            vec![Effect::SeqRemove { c: cid(h), at: at as usize, len: 1 }]
        }
        Call::ARemoveRange { ty, pos, len } => {
            let Some((h, _)) = pick(&types, &["array"], *ty) else { return vec![Effect::Nop] };
            let Handle::Array(a) = h else { return vec![Effect::Nop] };
            let n = a.len(txn);
            if n == 0 {
                return vec![Effect::Nop];
            }
            let at = *pos % n;
            let l = (*len as u32).min(n - at);
            ctx.log.push(format!("r{} {}.remove_range({}, {})", ctx.rid, cid(h), at, l));
            a.remove_range(txn, at, l);
            vec![Effect::SeqRemove { c: cid(h), at: at as usize, len: l as usize }]
        }
        Call::MInsert { ty, key, val } => {
            let Some((h, d)) = pick(&types, &["map"], *ty) else { return vec![Effect::Nop] };
            let Handle::Map(m) = h else { return vec![Effect::Nop] };
            let k = key_name(*key);
            // `Same`: the plain value the key shows right now is written again (a new entry with equal content)
            let again = match (val, m.get(txn, &k)) {
                (Val::Same, Some(Out::Any(a))) => Some(a),
                _ => None,
            };
            let (inp, item) = match again {
                Some(a) => (In::Any(a.clone()), Item::Prim(any_str(&a))),
                None => make_in(val, ctx, *d + 1),
            };
            ctx.log.push(format!("r{} {}.insert({}, {:?})", ctx.rid, cid(h), k, item));
            let out = match sub_doc(&item) {
                Some(d) => Out::YDoc(m.insert(txn, k.clone(), d)),
                None => m.insert(txn, k.clone(), inp),
            };
            vec![Effect::MapSet { c: cid(h), key: k, item: fix_item(item, &out) }]
        }
        Call::MTryUpdate { ty, key, same } => {
            let Some((h, _)) = pick(&types, &["map"], *ty) else { return vec![Effect::Nop] };
            let Handle::Map(m) = h else { return vec![Effect::Nop] };
            let k = key_name(*key);
            let cur = m.get(txn, &k);
            // either re-submit the current primitive value (must report "unchanged") or a fresh one
            let (value, expect_changed) = match (&cur, *same) {
                (Some(Out::Any(a)), true) => (a.clone(), false),
                _ => (Any::from(ctx.tag()), true),
            };
            ctx.log.push(format!("r{} {}.try_update({}, {})", ctx.rid, cid(h), k, any_str(&value)));
            let changed = m.try_update(txn, k.clone(), value.clone());
            if changed != expect_changed {
                panic!("try_update returned {} for key {} (current {:?}, new {})", changed, k, cur.map(|o| shallow(&o)), any_str(&value));
            }
            if changed {
                vec![Effect::MapSet { c: cid(h), key: k, item: Item::Prim(any_str(&value)) }]
            } else {
                vec![Effect::Nop]
            }
        }
        Call::MRemove { ty, key } => {
            let Some((h, _)) = pick(&types, &["map"], *ty) else { return vec![Effect::Nop] };
            let Handle::Map(m) = h else { return vec![Effect::Nop] };
            let k = key_name(*key);
            ctx.log.push(format!("r{} {}.remove({})", ctx.rid, cid(h), k));
            let had = m.contains_key(txn, &k);
            let r = m.remove(txn, &k);
            if r.is_some() != had {
                panic!("map remove returned {:?} although contains_key was {}", r.map(|o| shallow(&o)), had);
            }
            if had {
                vec![Effect::MapRemove { c: cid(h), key: k }]
            } else {
                vec![Effect::Nop]
            }
        }
        Call::MClear { ty } => {
            let Some((h, _)) = pick(&types, &["map"], *ty) else { return vec![Effect::Nop] };
            let Handle::Map(m) = h else { return vec![Effect::Nop] };
            ctx.log.push(format!("r{} {}.clear()", ctx.rid, cid(h)));
            m.clear(txn);
            vec![Effect::MapClear { c: cid(h) }]
        }
        Call::MGetOrInit { ty, key, kind: k2 } => {
            let Some((h, d)) = pick(&types, &["map"], *ty) else { return vec![Effect::Nop] };
            let Handle::Map(m) = h else { return vec![Effect::Nop] };
            if *d + 1 >= ctx.max_depth {
                return vec![Effect::Nop];
            }
            let k = key_name(*key);
            let cur = m.get(txn, &k);
            ctx.log.push(format!("r{} {}.get_or_init({}, kind {})", ctx.rid, cid(h), k, k2 % 3));
            let (hid, init, kept) = match k2 % 3 {
                0 => {
                    let r: TextRef = m.get_or_init(txn, k.clone());
                    (cid(&Handle::Text(r)), Init::Text(String::new()), matches!(cur, Some(Out::YText(_))))
                }
                1 => {
                    let r: yrs::ArrayRef = m.get_or_init(txn, k.clone());
                    (cid(&Handle::Array(r)), Init::Array(vec![]), matches!(cur, Some(Out::YArray(_))))
                }
                _ => {
                    let r: yrs::MapRef = m.get_or_init(txn, k.clone());
                    (cid(&Handle::Map(r)), Init::Map(vec![]), matches!(cur, Some(Out::YMap(_))))
                }
            };
            if kept {
                // the existing value of the requested kind must have been kept
                let now = m.get(txn, &k).and_then(|o| Handle::from_out(&o)).map(|h| cid(&h));
                let before = cur.and_then(|o| Handle::from_out(&o)).map(|h| cid(&h));
                if now != before || now.as_deref() != Some(hid.as_str()) {
                    panic!("get_or_init replaced an existing value of the requested kind");
                }
                vec![Effect::Nop]
            } else {
                vec![Effect::MapSet { c: cid(h), key: k, item: Item::Nested(hid, init) }]
            }
        }
        Call::XInsert { ty, pos, val } => {
            let Some((h, d)) = pick(&types, &["xfrag", "xelem"], *ty) else { return vec![Effect::Nop] };
            if *d + 1 >= ctx.max_depth + 1 {
                return vec![Effect::Nop];
            }
            let (inp, init) = make_xml(val, ctx);
            let (at, out) = match h {
                Handle::XFrag(f) => {
                    let at = *pos % (f.len(txn) + 1);
                    (at, f.insert(txn, at, inp))
                }
                Handle::XElem(f) => {
                    let at = *pos % (f.len(txn) + 1);
                    (at, f.insert(txn, at, inp))
                }
                _ => return vec![Effect::Nop],
            };
            ctx.log.push(format!("r{} {}.insert({}, {:?})", ctx.rid, cid(h), at, init));
            vec![Effect::SeqInsert { c: cid(h), at: at as usize, items: vec![Item::Nested(cid(&Handle::from_xml(&out)), init)] }]
        }
        Call::XRemove { ty, pos, len } => {
            let Some((h, _)) = pick(&types, &["xfrag", "xelem"], *ty) else { return vec![Effect::Nop] };
            let n = match h {
                Handle::XFrag(f) => f.len(txn),
                Handle::XElem(f) => f.len(txn),
                _ => 0,
            };
            if n == 0 {
                return vec![Effect::Nop];
            }
            let at = *pos % n;
            let l = (*len as u32).min(n - at);
            ctx.log.push(format!("r{} {}.remove_range({}, {})", ctx.rid, cid(h), at, l));
            match h {
                Handle::XFrag(f) => f.remove_range(txn, at, l),
                Handle::XElem(f) => f.remove_range(txn, at, l),
                _ => {}
            }
            vec![Effect::SeqRemove { c: cid(h), at: at as usize, len: l as usize }]
        }
        Call::XAttrSet { ty, key } => {
            let Some((h, _)) = pick(&types, &["xelem", "xtext"], *ty) else { return vec![Effect::Nop] };
            let k = key_name(*key);
            let v = format!("v{}", ctx.tag());
            ctx.log.push(format!("r{} {}.insert_attribute({}, {})", ctx.rid, cid(h), k, v));
            match h {
                Handle::XElem(e) => {
                    e.insert_attribute(txn, k.clone(), v.clone());
                }
                Handle::XText(e) => {
                    e.insert_attribute(txn, k.clone(), v.clone());
                }
                _ => {}
            }
            vec![Effect::MapSet { c: cid(h), key: k, item: Item::Prim(any_str(&Any::from(v))) }]
        }
        Call::XAttrRemove { ty, key } => {
            let Some((h, _)) = pick(&types, &["xelem", "xtext"], *ty) else { return vec![Effect::Nop] };
            let k = key_name(*key);
            let had = match h {
                Handle::XElem(e) => e.get_attribute(txn, &k).is_some(),
                Handle::XText(e) => e.get_attribute(txn, &k).is_some(),
                _ => false,
            };
            ctx.log.push(format!("r{} {}.remove_attribute({})", ctx.rid, cid(h), k));
            match h {
                Handle::XElem(e) => e.remove_attribute(txn, &k),
                Handle::XText(e) => e.remove_attribute(txn, &k),
                _ => {}
            }
            if had {
                vec![Effect::MapRemove { c: cid(h), key: k }]
            } else {
                vec![Effect::Nop]
            }
        }
        Call::Quote { .. } | Call::Link { .. } => crate::weak::exec_weak(call, roots, &types, txn, ctx),
    }
}
