//! Quotations and links (feature `weak`) — C20 workload calls.
use crate::dump::*;
use crate::ops::*;
use crate::prog::*;
use yrs::TransactionMut;

pub fn exec_weak(
    _call: &Call,
    _roots: &Roots,
    _types: &[(Handle, u32)],
    _txn: &mut TransactionMut,
    _ctx: &mut OpCtx,
) -> Vec<Effect> {
    vec![Effect::Nop]
}
