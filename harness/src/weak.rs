//! Quotations and links (feature `weak`) — C20 workload calls and monitor.
use crate::dump::*;
use crate::model::{integrated_units, Uid};
use crate::monitors::{layout, Layout};
use crate::ops::*;
use crate::prog::*;
use crate::util::catch;
use crate::world::*;
use std::collections::{HashMap, HashSet};
use std::sync::{Arc, Mutex};
use yrs::{Array, ArrayRef, GetString, Map, MapRef, Observable, Out, Quotable, ReadTxn, TextRef, Transact, TransactionMut, WeakRef};

pub struct QuoteRec {
    pub key: String,
    pub wid: String,
    pub src: Cid,
    pub text: bool,
    /// boundary units as the range named them (None = unbounded)
    pub start: Option<Uid>,
    pub end: Option<Uid>,
    pub end_incl: bool,
    pub created_on: usize,
    pub desc: String,
    pub fired: Arc<Mutex<u32>>,
    pub last_expected: HashMap<usize, Vec<String>>,
    pub last_fired: u32,
}

pub struct LinkRec {
    pub wid: String,
    pub src: Cid,
    pub key: String,
    pub uid: Uid,
}

#[derive(Default)]
pub struct WeakState {
    pub quotes: Vec<QuoteRec>,
    pub links: Vec<LinkRec>,
    pub subs: Vec<yrs::Subscription>,
}

fn offs(lay: &Layout, upto: usize) -> u32 {
    lay.widths[..upto].iter().sum()
}

pub fn exec_weak(call: &Call, roots: &Roots, types: &[(Handle, u32)], txn: &mut TransactionMut, ctx: &mut OpCtx) -> Vec<Effect> {
    match call {
        Call::Quote { src, kind, start, len, form, key } => {
            let kinds: &[&str] = if kind % 2 == 0 { &["text", "xtext"] } else { &["array"] };
            let cands: Vec<&(Handle, u32)> = types.iter().filter(|(h, _)| kinds.contains(&h.kind())).collect();
            if cands.is_empty() {
                return vec![Effect::Nop];
            }
            let h = &cands[(*src as usize) % cands.len()].0;
            // layout of the source through the transaction (public reads + hook H2)
            let Some(lay) = layout_txn(h, txn, ctx.kind) else { return vec![Effect::Nop] };
            let n = lay.labels.len();
            if n == 0 {
                return vec![Effect::Nop];
            }
            let p = (*start as usize) % n;
            let q = (p + (*len as usize).max(1) - 1).min(n - 1);
            let mut form = form % 4;
            // An inclusive end names the element by the index of its (only) unit. Elements that are
            // several units wide in this replica's offset kind (multi-byte / astral characters)
            // cannot be named inclusively without pointing into the middle of a character, which is
            // outside the API's domain: use the exclusive or the unbounded form for them.
            if (form == 1 || form == 3) && lay.widths[q] != 1 {
                form = if form == 1 { 0 } else { 4 };
            }
            if form == 0 && q + 1 >= n {
                form = if lay.widths[q] == 1 { 1 } else { 2 }; // an exclusive end must name an existing element
            }
            if form == 4 && q + 1 >= n {
                return vec![Effect::Nop];
            }
            let (a, b) = (offs(&lay, p), offs(&lay, q));
            let key = format!("q{}", key % 4);
            let cidh = format!("{:?}", h.id());
            let desc = format!("r{} quote {} elements {}..={} ({}..={}) form {} as {}", ctx.rid, cidh, p, q, lay.labels[p], lay.labels[q], form, key);
            ctx.log.push(desc.clone());
            macro_rules! q {
                ($t:expr) => {
                    match form {
                        0 => $t.quote(txn, a..offs(&lay, q + 1)),
                        1 => $t.quote(txn, a..=b),
                        2 => $t.quote(txn, a..),
                        4 => $t.quote(txn, ..offs(&lay, q + 1)),
                        _ => $t.quote(txn, ..=b),
                    }
                };
            }
            let (start_u, end_u, end_incl) = match form {
                0 => (Some(lay.uids[p]), Some(lay.uids[q + 1]), false),
                1 => (Some(lay.uids[p]), Some(lay.uids[q]), true),
                2 => (Some(lay.uids[p]), None, true),
                4 => (None, Some(lay.uids[q + 1]), false),
                _ => (None, Some(lay.uids[q]), true),
            };
            let wid = match h {
                Handle::Text(t) => match q!(t) {
                    Ok(pre) => {
                        let w = roots.m.insert(txn, key.clone(), pre);
                        format!("{:?}", w.as_ref().id())
                    }
                    Err(e) => panic!("quote refused on an in-range text range: {} ({})", e, desc),
                },
                Handle::XText(t) => match q!(t) {
                    Ok(pre) => {
                        let w = roots.m.insert(txn, key.clone(), pre);
                        format!("{:?}", w.as_ref().id())
                    }
                    Err(e) => panic!("quote refused on an in-range xml text range: {} ({})", e, desc),
                },
                Handle::Array(t) => match q!(t) {
                    Ok(pre) => {
                        let w = roots.m.insert(txn, key.clone(), pre);
                        format!("{:?}", w.as_ref().id())
                    }
                    Err(e) => panic!("quote refused on an in-range array range: {} ({})", e, desc),
                },
                _ => return vec![Effect::Nop],
            };
            // creating a quotation must not change the source
            if let Some(after) = layout_txn(h, txn, ctx.kind) {
                if after.labels != lay.labels {
                    panic!("quoting changed the source {}: {:?} -> {:?}", cidh, lay.labels, after.labels);
                }
            }
            vec![Effect::Quote { key, wid, src: cidh, text: !matches!(h, Handle::Array(_)), start: start_u, end: end_u, end_incl, desc }]
        }
        Call::Link { src, key } => {
            let cands: Vec<&(Handle, u32)> = types.iter().filter(|(h, _)| h.kind() == "map").collect();
            if cands.is_empty() {
                return vec![Effect::Nop];
            }
            let h = &cands[(*src as usize) % cands.len()].0;
            let Handle::Map(m) = h else { return vec![Effect::Nop] };
            let k = key_name(*key);
            let Some(pre) = m.link(txn, &k) else { return vec![Effect::Nop] };
            let cidh = format!("{:?}", h.id());
            let uid = yrs::verif::map_chain(txn, &h.id(), &k).and_then(|c| c.first().map(|b| (b.id.client.get(), b.id.clock + b.len - 1)));
            ctx.log.push(format!("r{} link {}[{}] stored in 'a'", ctx.rid, cidh, k));
            let w = roots.a.push_back(txn, pre);
            let wid = format!("{:?}", w.as_ref().id());
            match uid {
                Some(uid) => vec![Effect::Link { wid, src: cidh, key: k, uid }],
                None => vec![Effect::Nop],
            }
        }
        _ => vec![Effect::Nop],
    }
}

/// Layout of a sequence inside a running transaction.
fn layout_txn<T: ReadTxn>(h: &Handle, txn: &T, kind: yrs::OffsetKind) -> Option<Layout> {
    let (labels, clocks, widths): (Vec<String>, Vec<u32>, Vec<u32>) = match h {
        Handle::Text(_) | Handle::XText(_) => {
            let t = h.as_text().unwrap();
            let (l, c) = text_labels(&t, txn);
            let wd = text_units(&t, txn).iter().map(|u| u.len(kind)).collect();
            (l, c, wd)
        }
        Handle::Array(a) => {
            let l: Vec<String> = a.iter(txn).map(|o| label_of_out(&o)).collect();
            let k = l.len();
            (l, vec![1; k], vec![1; k])
        }
        _ => return None,
    };
    let items = yrs::verif::branch_items(txn, &h.id())?;
    let mut vis = vec![];
    let mut all = vec![];
    for it in items.iter() {
        for k in 0..it.len {
            let u = (it.id.client.get(), it.id.clock + k);
            all.push(u);
            if !it.deleted && it.countable {
                vis.push(u);
            }
        }
    }
    if clocks.iter().sum::<u32>() as usize != vis.len() {
        return None;
    }
    let mut uids = vec![];
    let mut p = 0usize;
    for c in &clocks {
        uids.push(vis[p]);
        p += *c as usize;
    }
    Some(Layout { labels, uids, widths, all, redone: Default::default() })
}

pub fn record(w: &mut World, r: usize, effects: &[Effect]) {
    for e in effects {
        match e {
            Effect::Quote { key, wid, src, text, start, end, end_incl, desc } => {
                // an observer on the quotation, attached on the replica that created it
                let fired = Arc::new(Mutex::new(0u32));
                let f2 = fired.clone();
                let txn = w.reps[r].doc.transact();
                if let Some(Out::YWeakLink(wl)) = w.reps[r].roots.m.get(&txn, key) {
                    drop(txn);
                    let sub = wl.observe(move |_, _| {
                        *f2.lock().unwrap() += 1;
                    });
                    w.ext.weak.subs.push(sub);
                }
                w.ext.weak.quotes.push(QuoteRec { key: key.clone(), wid: wid.clone(), src: src.clone(), text: *text, start: *start, end: *end, end_incl: *end_incl, created_on: r, desc: desc.clone(), fired, last_expected: HashMap::new(), last_fired: 0 });
                w.cnt.inc("c20_quotes_created");
            }
            Effect::Link { wid, src, key, uid } => {
                w.ext.weak.links.push(LinkRec { wid: wid.clone(), src: src.clone(), key: key.clone(), uid: *uid });
                w.cnt.inc("c20_links_created");
            }
            _ => {}
        }
    }
}

pub fn check(w: &mut World, r: usize) -> Result<(), Violation> {
    if w.ext.weak.quotes.is_empty() && w.ext.weak.links.is_empty() {
        return Ok(());
    }
    let rep = &w.reps[r];
    let id = rep.cfg.id;
    let txn = rep.doc.transact();
    let live: HashMap<String, Handle> = live_types(&rep.roots, &txn).into_iter().map(|(h, _)| (format!("{:?}", h.id()), h)).collect();
    let mut integ = integrated_units(&yrs::verif::store_blocks(&txn));
    // a boundary element / linked entry that this replica holds only as a GC range (relayed in collected form by a
    // replica where the container is already deleted, and received before that deletion) is anonymous here: it has no
    // place in any sequence or key chain, so the replica does not "hold the element" the quotation or link names
    let mut placeholders = 0u64;
    for b in yrs::verif::store_blocks(&txn).iter().filter(|b| b.kind == 1) {
        for k in b.id.clock..b.id.clock + b.len {
            if integ.remove(&(b.id.client.get(), k)) {
                placeholders += 1;
            }
        }
    }
    drop(txn);
    w.cnt.add("c20_units_held_only_as_gc_range", placeholders);
    let mut bad: Option<(String, String)> = None;
    let mut checks = 0u64;
    let mut updates: Vec<(usize, Vec<String>)> = vec![];
    let mut soft: Vec<(String, String)> = vec![];
    for (qi, q) in w.ext.weak.quotes.iter().enumerate() {
        let txn = rep.doc.transact();
        let wl = match rep.roots.m.get(&txn, &q.key) {
            Some(Out::YWeakLink(wl)) if format!("{:?}", wl.as_ref().id()) == q.wid => wl,
            _ => continue, // not integrated here, or replaced / removed
        };
        let Some(h) = live.get(&q.src) else { continue };
        if q.start.map(|u| !integ.contains(&u)).unwrap_or(false) || q.end.map(|u| !integ.contains(&u)).unwrap_or(false) {
            continue;
        }
        drop(txn);
        let Some(lay) = layout(rep, h) else { continue };
        let pos: HashMap<&Uid, usize> = lay.all.iter().enumerate().map(|(i, u)| (u, i)).collect();
        let si = match q.start {
            None => 0,
            Some(u) => match pos.get(&u) {
                Some(i) => *i,
                None => continue,
            },
        };
        let ei = match q.end {
            None => lay.all.len(),
            Some(u) => match pos.get(&u) {
                Some(i) => *i + if q.end_incl { 1 } else { 0 },
                None => continue,
            },
        };
        let mut want: Vec<String> = vec![];
        for (l, u) in lay.labels.iter().zip(lay.uids.iter()) {
            let p = pos[u];
            if p >= si && p < ei {
                want.push(l.clone());
            }
        }
        let txn = rep.doc.transact();
        let got: Result<Vec<String>, String> = catch(|| {
            if q.text {
                let s = match h {
                    Handle::XText(_) => WeakRef::<yrs::XmlTextRef>::from(wl.clone()).get_string(&txn),
                    _ => WeakRef::<TextRef>::from(wl.clone()).get_string(&txn),
                };
                s.chars().map(|c| format!("c{}", c)).collect()
            } else {
                WeakRef::<ArrayRef>::from(wl.clone()).unquote(&txn).map(|o| label_of_out(&o)).collect()
            }
        });
        drop(txn);
        checks += 1;
        let want_cmp: Vec<String> = if q.text { want.iter().filter(|l| l.starts_with('c')).cloned().collect() } else { want.clone() };
        match got {
            Err(p) => {
                bad = Some((format!("panic:{}", p.split(' ').next().unwrap_or("")), format!("dereferencing a quotation panicked: {}", p)));
                break;
            }
            Ok(got) => {
                // XML text renders formatting as tags: compare plain content only when nothing is formatted
                let formatted = matches!(h, Handle::XText(_)) && got.iter().any(|c| c == "c<");
                // embeds render through their own to_string inside a quotation's string: only
                // embed-free ranges are compared character by character
                let has_embed = q.text && want.iter().any(|l| !l.starts_with('c'));
                if got != want_cmp && !formatted && !has_embed {
                    let cls = if q.text { "text" } else { "array" };
                    let start_deleted = q.start.map(|u| !lay.uids.contains(&u)).unwrap_or(false);
                    let end_deleted = q.end.map(|u| !lay.uids.contains(&u)).unwrap_or(false);
                    bad = Some((format!("quotation-content:{}{}{}", cls, if start_deleted || end_deleted { ":boundary-deleted" } else { "" }, if (start_deleted || end_deleted) && rep.cfg.gc { ":gc-enabled" } else { "" }), format!("r{}: quotation {} of {} ({}) dereferences to {:?}, but the elements currently visible between its boundaries are {:?} (source now {:?})", id, q.key, q.src, q.desc, got, want_cmp, lay.labels)));
                    break;
                }
            }
        }
        if r == q.created_on {
            updates.push((qi, want));
        }
    }
    // observers: a change inside the range on the creating replica must have notified the observer
    if bad.is_none() {
        for (qi, want) in updates {
            let q = &mut w.ext.weak.quotes[qi];
            let fired = *q.fired.lock().unwrap();
            if let Some(prev) = q.last_expected.get(&r) {
                if prev != &want && fired == q.last_fired {
                    // classify: what changed and where relative to the previous content
                    let grew = want.len() > prev.len();
                    let at_end = grew && want.starts_with(prev);
                    let at_start = grew && want.ends_with(prev);
                    let cls = format!("{}:{}{}", if q.text { "text" } else { "array" }, if !grew { "removal" } else if at_end { "insert-at-end" } else if at_start { "insert-at-start" } else { "insert-inside" }, if q.end.is_none() && at_end { ":unbounded-end" } else if q.start.is_none() && at_start { ":unbounded-start" } else { "" });
                    soft.push((format!("observer-not-notified:{}", cls), format!("r{}: content inside quotation {} ({}) changed from {:?} to {:?} but its observer did not fire", id, q.key, q.desc, prev, want)));
                }
                if prev != &want {
                    w.cnt.inc("c20_range_changes_observed");
                }
            }
            q.last_expected.insert(r, want);
            q.last_fired = fired;
            if bad.is_some() {
                break;
            }
        }
    }
    if bad.is_none() {
        let rep = &w.reps[r];
        let txn = rep.doc.transact();
        let in_array: Vec<(String, yrs::WeakRef<yrs::branch::BranchPtr>)> = rep.roots.a.iter(&txn).filter_map(|o| if let Out::YWeakLink(wl) = o { Some((format!("{:?}", wl.as_ref().id()), wl)) } else { None }).collect();
        for l in w.ext.weak.links.iter() {
            let Some((_, wl)) = in_array.iter().find(|(i, _)| i == &l.wid) else { continue };
            let Some(Handle::Map(m)) = live.get(&l.src) else { continue };
            if !integ.contains(&l.uid) {
                continue;
            }
            let want = m.get(&txn, &l.key).map(|o| label_of_out(&o));
            let got = catch(|| WeakRef::<MapRef>::from(wl.clone()).try_deref_value(&txn).map(|o| label_of_out(&o)));
            checks += 1;
            match got {
                Err(p) => {
                    bad = Some((format!("panic:{}", p.split(' ').next().unwrap_or("")), format!("dereferencing a link panicked: {}", p)));
                    break;
                }
                Ok(got) => {
                    if got != want {
                        bad = Some((format!("link-value:{}", if want.is_none() { "removed-entry-still-dereferences" } else { "stale" }), format!("r{}: link to {}[{}] dereferences to {:?}, the entry currently holds {:?}", id, l.src, l.key, got, want)));
                        break;
                    }
                }
            }
        }
    }
    for (k, d) in soft {
        let d = format!("{} ;; log tail: {}", d, w.tail(6));
        w.soft_violation("C20", &k, d);
    }
    w.cnt.add("c20_dereferences_checked", checks);
    let _ = HashSet::<u8>::new();
    if let Some((k, d)) = bad {
        return viol("C20", &k, format!("{} ;; log tail: {}", d, w.tail(6)));
    }
    Ok(())
}
