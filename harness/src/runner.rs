//! Running generated histories of the replica simulator under a property's monitors; shrinking
//! and recording violations; JSON summary for the driver.
use crate::prog::*;
use crate::util::{catch, fnv_str, Args, Counters, Rng};
use crate::world::*;
use serde_json::json;
use std::io::Write;

pub struct Setup {
    pub profile: Profile,
    pub mon: MonSet,
}

/// Profile and monitor set of each simulator-based property.
pub fn setup(prop: &str, tier: &str, variant: u64) -> Setup {
    let mut p = Profile::general();
    let mut m = MonSet::default();
    let thorough = tier == "thorough";
    // a share of the thorough histories is long and uses up to 5 replicas
    if thorough && variant % 10 == 0 {
        p.steps = (120, 300);
        p.reps = (3, 5);
    } else if thorough {
        p.steps = (8, 70);
        p.reps = (2, 5);
    }
    match prop {
        "C01" => {
            m.prop = "C01";
            m.c01 = true;
            // a fifth of the histories with undo managers: undo / redo transactions are edits like any other for convergence
            if variant % 5 == 2 {
                m.undo = true;
                p.w_undo = 3;
            }
        }
        "C02" => {
            m.prop = "C02";
            m.c02 = true;
            // hostile delivery: reordering, withholding, relays through gapped replicas
            p.w_txn = 40;
            p.w_deliver = 40;
            p.w_relay = 10;
            p.w_merge = 6;
            p.w_syncall = 0;
            p.max_hostility = 2;
        }
        "C04" => {
            m.prop = "C04";
            m.c04 = true;
            p.calls = [16, 4, 3, 2, 8, 2, 2, 6, 8, 3, 8, 1, 0, 1, 0, 0, 4, 3, 0, 0, 0, 0];
            p.reps = (3, p.reps.1.max(4));
        }
        "C17" => {
            m.prop = "C17";
            m.c17 = true;
        }
        "C05" => {
            m.prop = "C05";
            m.c05 = true;
            // few keys, map-heavy, nested values, XML attributes, causal joins through sync points
            p.keys = 2;
            p.calls = [2, 0, 1, 0, 1, 0, 0, 3, 1, 1, 2, 30, 4, 10, 3, 3, 4, 1, 8, 4, 0, 0];
            p.nested = 25;
            p.w_syncall = 4;
            p.w_gc = 1;
            // one map insert in eight re-writes the value the key shows (a new entry with equal content must be made)
            p.same_pct = 12;
        }
        "C06" => {
            m.prop = "C06";
            m.c06 = true;
            p.w_probe = 8;
            p.w_relay = 12;
            p.w_recsv = 5;
            p.w_gc = 2;
        }
        "C07" => {
            m.prop = "C07";
            m.c07 = true;
            p.w_gc = 3;
            // undo / redo transactions of the leader are transactions like any other (every third history)
            if variant % 3 == 1 {
                m.undo = true;
                p.w_undo = 4;
            }
        }
        "C08" => {
            m.prop = "C08";
            m.c08 = true;
            p.w_probe = 6;
            p.w_gc = 2;
        }
        "C11" => {
            m.prop = "C11";
            m.c11 = true;
            p.w_gc = 2;
            p.subdocs = false;
        }
        "C16" => {
            m.prop = "C16";
            m.c16 = true;
            p.w_gc = 4;
            p.calls = [10, 4, 3, 6, 12, 2, 1, 5, 4, 2, 10, 8, 1, 5, 2, 1, 3, 4, 2, 2, 0, 0];
        }
        "C20" => {
            m.prop = "C20";
            m.c20 = true;
            // quotations over text / array ranges and links to map entries, edits inside, at and
            // outside the boundaries from all replicas
            p.calls = [14, 3, 2, 2, 10, 1, 2, 6, 8, 3, 8, 6, 1, 3, 0, 0, 1, 1, 0, 0, 9, 4];
            p.nested = 8;
            p.subdocs = false;
            p.keys = 2;
            // every other history stores its quotations under two keys only and quotes more: overlapping quotations
            // of which one is deleted (overwritten) while the other lives on
            if variant % 2 == 0 {
                p.quote_keys = 2;
                p.calls[20] = 16;
            }
        }
        "C13" => {
            m.prop = "C13";
            m.c13 = true;
            p.w_snap = 8;
            p.w_restore = 6;
            p.w_gc = 0;
            p.gc = None;
            p.calls = [12, 5, 3, 6, 10, 2, 2, 5, 5, 2, 8, 6, 1, 3, 1, 1, 3, 2, 2, 1, 0, 0];
        }
        "C14" => {
            m.prop = "C14";
            m.c14 = true;
            // every third history gives the replicas undo managers: anchors that are deleted and brought back by undo
            // (`Store::follow_redone`), tombstones with `redone` links that are split by remote edits
            if variant % 3 == 0 {
                m.undo = true;
                p.w_undo = 5;
            }
            p.w_sticky = 10;
            p.ascii_pct = 35;
            p.calls = [14, 4, 3, 3, 10, 1, 2, 6, 6, 2, 8, 2, 0, 1, 0, 0, 4, 3, 0, 0, 0, 0];
        }
        "C15" => {
            m.prop = "C15";
            m.c15 = true;
            // deletion-heavy: plain content, nested subtrees, map overwrites, formatting
            p.w_gc = 6;
            p.nested = 30;
            p.cleanup_pct = 40;
            p.lockstep_pct = 35;
            p.calls = [10, 4, 3, 8, 12, 2, 1, 5, 4, 2, 10, 8, 1, 5, 2, 1, 3, 4, 2, 2, 0, 0];
        }
        _ => {
            m.prop = "C01";
            m.c01 = true;
        }
    }
    Setup { profile: p, mon: m }
}

pub struct RunResult {
    pub soft: Vec<Violation>,
    pub violation: Option<Violation>,
    pub cnt: Counters,
    pub nontrivial: bool,
    pub hash: u64,
    pub log: Vec<String>,
    pub harness_error: Option<String>,
}

fn nontrivial(prop: &str, w: &World) -> bool {
    match prop {
        "C01" => w.concurrent && w.nonfifo,
        "C02" => w.had_stash,
        "C04" => w.concurrent && w.cnt.get("order_pairs") > 0,
        "C17" => w.cnt.get("readpath_comparisons") > 20 && w.msgs.len() >= 3,
        _ => crate::monitors::nontrivial_ext(prop, w),
    }
}

pub fn run_program(prog: &Program, mon: &MonSet) -> RunResult {
    crate::util::note_candidate("sim", mon.prop, &serde_json::to_value(prog).unwrap());
    let mut world = World::new(&prog.cfg, mon.clone());
    world.ascii = prog.ascii;
    let res = catch(|| {
        for s in &prog.steps {
            world.exec(s)?;
        }
        world.finish()
    });
    let (violation, harness_error) = match res {
        Ok(Ok(())) => (None, None),
        Ok(Err(v)) => (Some(v), None),
        Err(p) => {
            // a panic that escaped the per-call guards: inside a read path or inside the harness
            if p.starts_with("harness/src") || p.contains("/harness/src/") || p.starts_with("src/") {
                (None, Some(p))
            } else {
                (
                    Some(Violation {
                        prop: mon.prop,
                        kind: format!("panic:{}", p.split(' ').next().unwrap_or("")),
                        detail: format!("panic while observing a replica: {} ;; log tail: {}", p, world.tail(6)),
                    }),
                    None,
                )
            }
        }
    };
    RunResult {
        nontrivial: nontrivial(mon.prop, &world),
        hash: world.history_hash(),
        cnt: world.cnt.clone(),
        log: world.log.clone(),
        soft: world.soft.clone(),
        violation,
        harness_error,
    }
}

fn same(res: &RunResult, prop: &str, kind: &str) -> bool {
    matches!(&res.violation, Some(x) if x.prop == prop && x.kind == kind) || res.soft.iter().any(|x| x.prop == prop && x.kind == kind)
}

/// Delta debugging over the step list (then over calls inside transactions): keeps a reduction
/// only if the same monitor reports the same violation kind.
pub fn minimise(prog: &Program, mon: &MonSet, v: &Violation, budget: usize) -> (Program, usize) {
    let mut best = prog.clone();
    let mut runs = 0usize;
    let mut n = 2usize;
    // minimisation is a convenience: bounded by candidate runs and by wall-clock time
    let t0 = std::time::Instant::now();
    let budget = if std::env::var("YMON_NO_MIN").is_ok() { 0 } else { budget };
    // (a manual `replay --deep-min <secs>` lifts both bounds)
    let extra: u64 = std::env::var("YMON_MIN_SECS").ok().and_then(|s| s.parse().ok()).unwrap_or(0);
    let budget = if extra > 0 { usize::MAX } else { budget };
    while best.steps.len() >= 2 && runs < budget && t0.elapsed().as_secs() < 20 + extra {
        let len = best.steps.len();
        let chunk = (len + n - 1) / n;
        let mut reduced = false;
        let mut i = 0;
        while i < len && runs < budget && t0.elapsed().as_secs() < 20 + extra {
            let mut cand = best.clone();
            let end = (i + chunk).min(len);
            cand.steps.drain(i..end);
            runs += 1;
            if same(&run_program(&cand, mon), v.prop, &v.kind) {
                best = cand;
                n = (n - 1).max(2);
                reduced = true;
                break;
            }
            i += chunk;
        }
        if !reduced {
            if n >= len {
                break;
            }
            n = (n * 2).min(len);
        }
    }
    // single calls inside transactions
    let mut si = 0;
    while si < best.steps.len() && runs < budget && t0.elapsed().as_secs() < 30 + extra {
        if let Step::Txn { calls, .. } = &best.steps[si] {
            let mut ci = 0;
            let mut ncalls = calls.len();
            while ncalls > 1 && ci < ncalls && runs < budget {
                let mut cand = best.clone();
                if let Step::Txn { calls, .. } = &mut cand.steps[si] {
                    calls.remove(ci);
                }
                runs += 1;
                if same(&run_program(&cand, mon), v.prop, &v.kind) {
                    best = cand;
                    ncalls -= 1;
                } else {
                    ci += 1;
                }
            }
        }
        si += 1;
    }
    // fewer replicas do not shrink well (selectors are modulo n) - keep cfg
    (best, runs)
}

fn history_seed(seed: u64, prop: &str, idx: u64) -> u64 {
    fnv_str(&format!("{}/{}/{}", seed, prop, idx))
}

pub fn cmd_sim(args: &Args) -> i32 {
    let prop = args.str("prop", "C01");
    let tier = args.str("tier", "quick");
    let seed = args.u64("seed", 1);
    let from = args.u64("from", 0);
    let count = args.u64("count", 100);
    let out = args.str("out", "");
    let replay_dir = args.str("replay-dir", "/verif/replays");
    let progress = args.str("progress", "");
    if !progress.is_empty() {
        crate::util::set_candidate_path(&format!("{}.cand", progress));
    }
    let mut total = Counters::default();
    let mut hashes: Vec<u64> = vec![];
    let mut violations = vec![];
    let mut samples = vec![];
    let mut harness_errors = vec![];
    let mut evaluations = 0u64;
    let mut seen_kinds: Vec<String> = vec![];
    for idx in from..from + count {
        if !progress.is_empty() {
            if let Ok(mut f) = std::fs::File::create(&progress) {
                let _ = writeln!(f, "{}", idx);
            }
        }
        let st = setup(&prop, &tier, idx);
        let mut rng = Rng::with_seed(history_seed(seed, &prop, idx));
        let program = gen_program(&mut rng, &st.profile);
        let res = run_program(&program, &st.mon);
        evaluations += 1;
        total.merge(&res.cnt);
        if let Some(e) = res.harness_error {
            harness_errors.push(json!({"idx": idx, "error": e}));
            continue;
        }
        if res.nontrivial {
            hashes.push(res.hash);
        }
        if samples.len() < 2 && res.nontrivial && res.violation.is_none() && res.soft.is_empty() {
            samples.push(json!({"idx": idx, "replicas": program.cfg, "log": res.log.iter().take(40).collect::<Vec<_>>()}));
        }
        let mut found: Vec<Violation> = res.soft.clone();
        if let Some(v) = res.violation.clone() {
            found.push(v);
        }
        for v in found {
            let sig = format!("{}/{}", v.prop, v.kind);
            let first_of_kind = !seen_kinds.contains(&sig);
            if first_of_kind {
                seen_kinds.push(sig.clone());
            }
            let mut entry = json!({"prop": v.prop, "kind": v.kind, "detail": v.detail, "idx": idx});
            if first_of_kind && violations.len() < 64 {
                let _ = std::fs::create_dir_all(&replay_dir);
                let path = format!("{}/{}-{}-s{}-i{}.json", replay_dir, prop, v.kind.replace(|c: char| !c.is_alphanumeric(), "_"), seed, idx);
                // the un-minimised history first: a candidate of the minimisation may not terminate on a broken library
                let raw = json!({
                    "workload": "sim", "prop": prop, "tier": tier, "seed": seed, "idx": idx,
                    "violation": {"prop": v.prop, "kind": v.kind, "detail": v.detail},
                    "program": program, "log": res.log,
                });
                let _ = std::fs::write(&path, serde_json::to_string_pretty(&raw).unwrap());
                let (min, runs) = minimise(&program, &st.mon, &v, 400);
                let minres = run_program(&min, &st.mon);
                let doc = json!({
                    "workload": "sim", "prop": prop, "tier": tier, "seed": seed, "idx": idx,
                    "violation": {"prop": v.prop, "kind": v.kind, "detail": v.detail},
                    "program": program, "log": res.log,
                    "minimised": {"program": min, "ddmin_runs": runs, "log": minres.log,
                                  "detail": minres.violation.iter().chain(minres.soft.iter()).find(|x| x.kind == v.kind).map(|x| x.detail.clone())},
                });
                if std::fs::write(&path, serde_json::to_string_pretty(&doc).unwrap()).is_ok() {
                    entry["replay"] = json!(path);
                }
                entry["min_steps"] = json!(min.steps.len());
                entry["min_detail"] = json!(minres.violation.iter().chain(minres.soft.iter()).find(|x| x.kind == v.kind).map(|x| x.detail.clone()));
            }
            if crate::util::room(&violations, entry["kind"].as_str().unwrap_or("")) {
                violations.push(entry);
            }
        }
    }
    let summary = json!({
        "workload": "sim", "prop": prop, "tier": tier, "seed": seed, "from": from, "count": count,
        "evaluations": evaluations, "hashes": hashes, "counters": total.0, "violations": violations,
        "samples": samples, "harness_errors": harness_errors,
    });
    let text = serde_json::to_string(&summary).unwrap();
    if out.is_empty() {
        println!("{}", text);
    } else {
        std::fs::write(&out, text).unwrap();
    }
    0
}

pub fn cmd_replay(args: &Args) -> i32 {
    let file = args.str("file", "");
    let text = match std::fs::read_to_string(&file) {
        Ok(t) => t,
        Err(e) => {
            eprintln!("cannot read {}: {}", file, e);
            return 2;
        }
    };
    let doc: serde_json::Value = serde_json::from_str(&text).unwrap();
    if doc["workload"].as_str() == Some("fuzz") {
        return crate::wire::replay_fuzz(&doc);
    }
    if doc["workload"].as_str() == Some("roundtrip") {
        return crate::wire::replay_roundtrip(&doc);
    }
    if doc["workload"].as_str() == Some("undo") {
        return crate::undo::replay_undo(&doc, args.has("full"));
    }
    if doc["workload"].as_str() == Some("seq") {
        return crate::seqmodel::replay_seq(&doc, args.has("full"));
    }
    let prop = doc["prop"].as_str().unwrap_or("C01").to_string();
    let tier = doc["tier"].as_str().unwrap_or("quick").to_string();
    let idx = doc["idx"].as_u64().unwrap_or(0);
    let which = if args.has("full") { &doc["program"] } else { &doc["minimised"]["program"] };
    let program: Program = serde_json::from_value(which.clone()).unwrap();
    let st = setup(&prop, &tier, idx);
    if args.has("deep-min") {
        // manual aid: minimise the recorded history again with a larger budget and store it next to the file
        std::env::set_var("YMON_MIN_SECS", args.str("deep-min", "600"));
        let v = Violation { prop: Box::leak(prop.clone().into_boxed_str()), kind: doc["violation"]["kind"].as_str().unwrap_or("").to_string(), detail: String::new() };
        let (min, runs) = minimise(&program, &st.mon, &v, usize::MAX);
        let minres = run_program(&min, &st.mon);
        let out = json!({"workload": "sim", "prop": prop, "tier": tier, "seed": doc["seed"], "idx": idx, "violation": doc["violation"], "program": min,
            "minimised": {"program": min, "ddmin_runs": runs, "log": minres.log}});
        let path = format!("{}.min.json", file);
        let _ = std::fs::write(&path, serde_json::to_string_pretty(&out).unwrap());
        println!("minimised to {} steps in {} runs -> {}", min.steps.len(), runs, path);
        return 0;
    }
    let res = run_program(&program, &st.mon);
    for l in &res.log {
        println!("  {}", l);
    }
    let mut code = 0;
    for v in res.soft.iter().chain(res.violation.iter()) {
        println!("REPLAY violation property={} kind={}\n{}", v.prop, v.kind, v.detail);
        code = 1;
    }
    if code == 0 {
        println!("REPLAY no violation");
    }
    code
}
