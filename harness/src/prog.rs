//! Histories as data: a program is a list of steps whose arguments are *selectors* (raw integers
//! resolved modulo the current state when the step runs), so any sub-list of a program is again a
//! valid program. That is what makes delta-debugging and self-contained replay files possible.
use crate::util::Rng;
use serde::{Deserialize, Serialize};

#[derive(Serialize, Deserialize, Clone, Debug, PartialEq)]
pub enum Val {
    Prim,
    Text(u8),
    Array(u8),
    Map(u8),
    XElem,
    XText(u8),
    Doc,
    /// (map insert only) the plain value the key currently shows on the writing replica, written again
    Same,
}

#[derive(Serialize, Deserialize, Clone, Debug, PartialEq)]
pub struct AttrSel {
    pub key: u8,
    pub val: u8,
}

#[derive(Serialize, Deserialize, Clone, Debug, PartialEq)]
pub enum DOp {
    Retain(u8, Option<AttrSel>),
    Insert(u8, Option<AttrSel>),
    Embed(Option<AttrSel>),
    Delete(u8),
}

#[derive(Serialize, Deserialize, Clone, Debug, PartialEq)]
pub enum Call {
    TInsert { ty: u32, pos: u32, n: u8 },
    TInsertAttr { ty: u32, pos: u32, n: u8, attr: AttrSel },
    TEmbed { ty: u32, pos: u32, attr: Option<AttrSel>, val: Val },
    TFormat { ty: u32, pos: u32, len: u8, attr: AttrSel },
    TRemove { ty: u32, pos: u32, len: u8 },
    TDelta { ty: u32, ops: Vec<DOp> },
    TPush { ty: u32, n: u8 },
    AInsert { ty: u32, pos: u32, val: Val },
    AInsertRange { ty: u32, pos: u32, n: u8 },
    APush { ty: u32, front: bool, val: Val },
    ARemove { ty: u32, pos: u32 },
    ARemoveRange { ty: u32, pos: u32, len: u8 },
    MInsert { ty: u32, key: u8, val: Val },
    MTryUpdate { ty: u32, key: u8, same: bool },
    MRemove { ty: u32, key: u8 },
    MClear { ty: u32 },
    MGetOrInit { ty: u32, key: u8, kind: u8 },
    XInsert { ty: u32, pos: u32, val: Val },
    XRemove { ty: u32, pos: u32, len: u8 },
    XAttrSet { ty: u32, key: u8 },
    XAttrRemove { ty: u32, key: u8 },
    /// quote a range of a sequence and store the quotation in the root map (feature `weak`)
    Quote { src: u32, kind: u8, start: u32, len: u8, form: u8, key: u8 },
    /// link to a map entry, stored in the root array
    Link { src: u32, key: u8 },
}

#[derive(Serialize, Deserialize, Clone, Debug, PartialEq)]
pub enum Step {
    Txn { r: u8, calls: Vec<Call> },
    /// deliver one pooled message; `form`: 0 = v1 bytes, 1 = v2 bytes, 2 = v1 re-coded as v2, 3 = v2 re-coded as v1
    Deliver { to: u8, sel: u32, dup: bool, form: u8 },
    /// deliver a `merge_updates` batch of several pooled messages
    Merge { to: u8, sels: Vec<u32>, v2: bool, nest: bool },
    /// relay: `form` 0/1 = encode_state_as_update v1/v2, 2/3 = encode_diff v1/v2; `sv` 0 = receiver's
    /// current vector, 1 = empty vector, 2 = a stale vector of the receiver recorded earlier
    Relay { from: u8, to: u8, form: u8, sv: u8, stale: u32 },
    RecSv { r: u8 },
    /// everybody receives everything outstanding (creates causal joins)
    SyncAll,
    Gc { r: u8, ds: bool },
    Snap { r: u8 },
    Restore { sel: u32 },
    Sticky { r: u8, ty: u32, pos: u32, after: bool, edge: u8 },
    /// undo (or redo) the last captured local transaction of replica r (only when the profile gives replicas an undo manager)
    Undo { r: u8, redo: bool },
    Probe { a: u8, b: u8, x: u32, y: u32 },
}

#[derive(Serialize, Deserialize, Clone, Debug, PartialEq)]
pub struct RepCfg {
    pub id: u64,
    pub gc: bool,
    pub bytes: bool,
    pub cleanup: bool,
}

#[derive(Serialize, Deserialize, Clone, Debug, PartialEq)]
pub struct Program {
    pub cfg: Vec<RepCfg>,
    pub steps: Vec<Step>,
    /// text is drawn from ASCII characters only (as long as the 62 unique ones last)
    #[serde(default)]
    pub ascii: bool,
}

/// Workload profile: relative weights of step and call kinds.
#[derive(Clone, Debug)]
pub struct Profile {
    pub name: &'static str,
    pub reps: (usize, usize),
    pub steps: (usize, usize),
    pub w_txn: u32,
    pub w_deliver: u32,
    pub w_merge: u32,
    pub w_relay: u32,
    pub w_gc: u32,
    pub w_snap: u32,
    pub w_restore: u32,
    pub w_sticky: u32,
    pub w_syncall: u32,
    pub w_recsv: u32,
    pub w_probe: u32,
    pub w_undo: u32,
    /// call weights: [text insert, insert+attr, embed, format, text remove, delta, push,
    ///  array insert, array range, array push, array remove,
    ///  map insert, try_update, map remove, clear, get_or_init,
    ///  xml insert, xml remove, xml attr set, xml attr remove, quote, link]
    pub calls: [u32; 22],
    /// percent of inserted values that are nested shared types
    pub nested: u32,
    pub subdocs: bool,
    /// number of distinct map keys / attribute names used
    pub keys: u8,
    /// force gc setting (None = random per replica)
    pub gc: Option<bool>,
    /// delivery modes allowed: 0 fifo only, 1 any order, 2 any order + duplicates
    pub max_hostility: u8,
    /// probability (percent) that a delivery re-delivers an already delivered message in mode 2
    pub big_ids: bool,
    /// percent of histories in which replicas may have formatting clean-up switched on
    pub cleanup_pct: u32,
    /// percent of histories whose text is ASCII only
    pub ascii_pct: u32,
    /// percent of histories generated in lock-step shape (edit, sync everybody, edit, ...): sequential, no concurrency
    pub lockstep_pct: u32,
    /// percent of map inserts that write the key's current plain value again (C05)
    pub same_pct: u32,
    /// number of root-map keys quotations are stored under (fewer keys = quotations are overwritten, i.e. deleted, more often)
    pub quote_keys: u8,
}

pub const C_TINS: usize = 0;
pub const C_TATTR: usize = 1;
pub const C_EMBED: usize = 2;
pub const C_FORMAT: usize = 3;
pub const C_TREM: usize = 4;
pub const C_DELTA: usize = 5;
pub const C_PUSH: usize = 6;
pub const C_AINS: usize = 7;
pub const C_ARANGE: usize = 8;
pub const C_APUSH: usize = 9;
pub const C_AREM: usize = 10;
pub const C_MINS: usize = 11;
pub const C_MTRY: usize = 12;
pub const C_MREM: usize = 13;
pub const C_MCLEAR: usize = 14;
pub const C_MGOI: usize = 15;
pub const C_XINS: usize = 16;
pub const C_XREM: usize = 17;
pub const C_XATTR: usize = 18;
pub const C_XATTRREM: usize = 19;
pub const C_QUOTE: usize = 20;
pub const C_LINK: usize = 21;

impl Profile {
    /// General mixed profile: every operation kind, every delivery fault.
    pub fn general() -> Profile {
        Profile {
            name: "general",
            reps: (2, 4),
            steps: (8, 40),
            w_txn: 50,
            w_deliver: 30,
            w_merge: 5,
            w_relay: 6,
            w_gc: 2,
            w_snap: 0,
            w_restore: 0,
            w_sticky: 0,
            w_syncall: 2,
            w_recsv: 2,
            w_probe: 0,
            w_undo: 0,
            calls: [12, 5, 3, 6, 6, 2, 2, 5, 5, 2, 5, 6, 1, 3, 1, 1, 3, 2, 2, 1, 0, 0],
            nested: 15,
            subdocs: true,
            keys: 3,
            gc: None,
            max_hostility: 2,
            big_ids: true,
            cleanup_pct: 100,
            lockstep_pct: 0,
            same_pct: 0,
            quote_keys: 4,
            ascii_pct: 0,
        }
    }
}

fn weighted(rng: &mut Rng, w: &[u32]) -> usize {
    let total: u32 = w.iter().sum();
    if total == 0 {
        return 0;
    }
    let mut x = rng.u32(0..total);
    for (i, wi) in w.iter().enumerate() {
        if x < *wi {
            return i;
        }
        x -= *wi;
    }
    0
}

fn gen_ty(rng: &mut Rng) -> u32 {
    // 0 selects the root type of the kind; nested types get the rest
    if rng.u8(0..3) == 0 {
        rng.u32(1..8)
    } else {
        0
    }
}

fn gen_attr(rng: &mut Rng) -> AttrSel {
    AttrSel { key: rng.u8(0..3), val: rng.u8(0..4) }
}

fn gen_val(rng: &mut Rng, p: &Profile, xml: bool) -> Val {
    if xml {
        return if rng.bool() { Val::XElem } else { Val::XText(rng.u8(0..4)) };
    }
    if rng.u32(0..100) < p.nested {
        match rng.u8(0..if p.subdocs { 10 } else { 9 }) {
            0..=2 => Val::Text(rng.u8(0..4)),
            3..=5 => Val::Array(rng.u8(0..4)),
            6..=8 => Val::Map(rng.u8(0..3)),
            _ => Val::Doc,
        }
    } else {
        Val::Prim
    }
}

pub fn gen_call(rng: &mut Rng, p: &Profile) -> Call {
    let ty = gen_ty(rng);
    let pos = rng.u32(0..1000);
    match weighted(rng, &p.calls) {
        C_TINS => Call::TInsert { ty, pos, n: rng.u8(1..5) },
        C_TATTR => Call::TInsertAttr { ty, pos, n: rng.u8(1..4), attr: gen_attr(rng) },
        C_EMBED => Call::TEmbed {
            ty,
            pos,
            attr: if rng.bool() { Some(gen_attr(rng)) } else { None },
            val: gen_val(rng, p, false),
        },
        C_FORMAT => Call::TFormat { ty, pos, len: rng.u8(1..6), attr: gen_attr(rng) },
        C_TREM => Call::TRemove { ty, pos, len: rng.u8(1..5) },
        C_DELTA => {
            let mut ops = vec![];
            for _ in 0..rng.usize(1..5) {
                ops.push(match rng.u8(0..7) {
                    0 | 1 => DOp::Retain(rng.u8(1..4), if rng.bool() { Some(gen_attr(rng)) } else { None }),
                    2 | 3 => DOp::Insert(rng.u8(1..4), if rng.bool() { Some(gen_attr(rng)) } else { None }),
                    4 => DOp::Embed(if rng.bool() { Some(gen_attr(rng)) } else { None }),
                    _ => DOp::Delete(rng.u8(1..3)),
                });
            }
            Call::TDelta { ty, ops }
        }
        C_PUSH => Call::TPush { ty, n: rng.u8(1..4) },
        C_AINS => Call::AInsert { ty, pos, val: gen_val(rng, p, false) },
        C_ARANGE => Call::AInsertRange { ty, pos, n: rng.u8(1..5) },
        C_APUSH => Call::APush { ty, front: rng.bool(), val: gen_val(rng, p, false) },
        C_AREM => {
            if rng.bool() {
                Call::ARemove { ty, pos }
            } else {
                Call::ARemoveRange { ty, pos, len: rng.u8(1..4) }
            }
        }
        C_MINS => {
            let key = rng.u8(0..p.keys);
            let val = if p.same_pct > 0 && rng.u32(0..100) < p.same_pct { Val::Same } else { gen_val(rng, p, false) };
            Call::MInsert { ty, key, val }
        }
        C_MTRY => Call::MTryUpdate { ty, key: rng.u8(0..p.keys), same: rng.bool() },
        C_MREM => Call::MRemove { ty, key: rng.u8(0..p.keys) },
        C_MCLEAR => Call::MClear { ty },
        C_MGOI => Call::MGetOrInit { ty, key: rng.u8(0..p.keys), kind: rng.u8(0..3) },
        C_XINS => Call::XInsert { ty, pos, val: gen_val(rng, p, true) },
        C_XREM => Call::XRemove { ty, pos, len: rng.u8(1..3) },
        C_XATTR => Call::XAttrSet { ty, key: rng.u8(0..p.keys) },
        C_XATTRREM => Call::XAttrRemove { ty, key: rng.u8(0..p.keys) },
        C_QUOTE => Call::Quote {
            src: ty,
            kind: rng.u8(0..3),
            start: pos,
            len: rng.u8(1..5),
            form: rng.u8(0..4),
            key: rng.u8(0..p.quote_keys),
        },
        _ => Call::Link { src: ty, key: rng.u8(0..p.keys) },
    }
}

pub fn gen_cfg(rng: &mut Rng, p: &Profile) -> Vec<RepCfg> {
    let n = rng.usize(p.reps.0..=p.reps.1);
    // adversarial client ids: tiny, reversed w.r.t. creation order, or 53-bit
    let style = rng.u8(0..4);
    let mut ids: Vec<u64> = (1..=n as u64).collect();
    match style {
        0 => {}
        1 => ids.reverse(),
        2 => rng.shuffle(&mut ids),
        _ => {
            if p.big_ids {
                ids = ids.iter().map(|i| (1u64 << 53) - 1 - (i * 7919) % 100_000).collect();
                if rng.bool() {
                    ids.reverse();
                }
            } else {
                rng.shuffle(&mut ids);
            }
        }
    }
    let cleanup_allowed = rng.u32(0..100) < p.cleanup_pct;
    ids.iter()
        .map(|&id| RepCfg {
            id,
            gc: p.gc.unwrap_or_else(|| rng.bool()),
            bytes: rng.bool(),
            cleanup: cleanup_allowed && rng.u8(0..4) != 0,
        })
        .collect()
}

pub fn gen_program(rng: &mut Rng, p: &Profile) -> Program {
    let cfg = gen_cfg(rng, p);
    let n = cfg.len() as u8;
    let nsteps = rng.usize(p.steps.0..=p.steps.1);
    let hostility = rng.u8(0..=p.max_hostility);
    let mut steps = vec![];
    let w = [
        p.w_txn, p.w_deliver, p.w_merge, p.w_relay, p.w_gc, p.w_snap, p.w_restore, p.w_sticky, p.w_syncall,
        p.w_recsv, p.w_probe, p.w_undo,
    ];
    if rng.u32(0..100) < p.lockstep_pct {
        for _ in 0..nsteps {
            let r = rng.u8(0..n);
            let k = rng.usize(1..4);
            steps.push(Step::Txn { r, calls: (0..k).map(|_| gen_call(rng, p)).collect() });
            if rng.u8(0..6) == 0 {
                steps.push(Step::Gc { r: rng.u8(0..n), ds: rng.bool() });
            }
            steps.push(Step::SyncAll);
        }
        let ascii = rng.u32(0..100) < p.ascii_pct;
        return Program { cfg, steps, ascii };
    }
    for _ in 0..nsteps {
        let r = rng.u8(0..n);
        let step = match weighted(rng, &w) {
            0 => {
                let k = rng.usize(1..4);
                Step::Txn { r, calls: (0..k).map(|_| gen_call(rng, p)).collect() }
            }
            1 => Step::Deliver {
                to: r,
                sel: if hostility == 0 { 0 } else { rng.u32(0..1000) },
                dup: hostility == 2 && rng.u8(0..6) == 0,
                form: if hostility == 0 { rng.u8(0..2) } else { rng.u8(0..4) },
            },
            2 if hostility > 0 => Step::Merge {
                to: r,
                sels: (0..rng.usize(2..5)).map(|_| rng.u32(0..1000)).collect(),
                v2: rng.bool(),
                nest: rng.bool(),
            },
            3 if hostility > 0 && n > 1 => Step::Relay {
                from: (r + 1 + rng.u8(0..n - 1)) % n,
                to: r,
                form: rng.u8(0..4),
                sv: rng.u8(0..3),
                stale: rng.u32(0..1000),
            },
            4 => Step::Gc { r, ds: rng.bool() },
            5 => Step::Snap { r },
            6 => Step::Restore { sel: rng.u32(0..1000) },
            7 => Step::Sticky { r, ty: gen_ty(rng), pos: rng.u32(0..1000), after: rng.bool(), edge: rng.u8(0..6) },
            8 => Step::SyncAll,
            9 => Step::RecSv { r },
            10 => Step::Probe { a: r, b: rng.u8(0..n), x: rng.u32(0..1000), y: rng.u32(0..1000) },
            11 => Step::Undo { r, redo: rng.u8(0..3) == 0 },
            _ => Step::Deliver { to: r, sel: 0, dup: false, form: 0 },
        };
        steps.push(step);
    }
    let ascii = rng.u32(0..100) < p.ascii_pct;
    Program { cfg, steps, ascii }
}
