//! C12 — undo/redo are inverses of the captured local changes and touch nothing else.
//! The monitor mirrors the undo and redo stacks from public observations only (stack lengths
//! before/after every transaction and call) and remembers, per mirrored step, the canonical dump
//! of the scoped types before the step began and after it ended.
use crate::dump::*;
use crate::ops::*;
use crate::prog::*;
use crate::util::{catch, Args, Counters, Rng};
use crate::world::{label_of_out, make_doc, text_labels};
use serde::{Deserialize, Serialize};
use serde_json::json;
use std::collections::{HashMap, HashSet};
use std::io::Write;
use std::sync::atomic::{AtomicU64, Ordering};
use std::sync::Arc;
use yrs::updates::decoder::Decode;
use yrs::{Array, OffsetKind, ReadTxn, StateVector, Transact, Update, XmlFragment};

#[derive(Serialize, Deserialize, Clone, Debug, PartialEq)]
pub enum UStep {
    /// local edit; `tracked` = no origin (captured), otherwise origin "other" (a foreign origin)
    Edit { tracked: bool, calls: Vec<Call> },
    Tick { ms: u32 },
    Undo,
    Redo,
    /// the peer edits and the update is applied here with origin "remote"
    Remote { calls: Vec<Call> },
    Gc,
}

#[derive(Serialize, Deserialize, Clone, Debug, PartialEq)]
pub struct UProgram {
    pub gc: bool,
    pub bytes: bool,
    pub steps: Vec<UStep>,
}

struct Entry {
    before: String,
    after: String,
    /// the same dumps with every map component (map entries, XML attributes) left out
    before_seq: String,
    after_seq: String,
    /// a foreign origin edited the scoped types after this step was captured
    tainted: bool,
}

pub struct UResult {
    pub violation: Option<(String, String)>,
    pub cnt: Counters,
    pub log: Vec<String>,
}

fn scoped(roots: &Roots, doc: &yrs::Doc) -> String {
    let txn = doc.transact();
    format!("t={} m={} x={}", dump_text(&roots.t, &txn), dump_map(&roots.m, &txn), dump_xml(&yrs::XmlOut::Fragment(roots.x.clone()), &txn))
}

/// Scoped content as an id-free tree: sequences as arrays, map components (map entries, XML attributes) as objects.
fn tree<T: ReadTxn>(o: &yrs::Out, txn: &T) -> serde_json::Value {
    use serde_json::{json, Value};
    use yrs::types::text::YChange;
    use yrs::{Map, Text, Xml};
    let text = |t: &yrs::TextRef| -> Value {
        let mut v = vec![];
        for c in t.diff(txn, YChange::identity) {
            let at = attrs_str(&attrs_map(&c.attributes));
            match &c.insert {
                // one element per character, so that a permutation of the elements is a permutation of the array
                yrs::Out::Any(yrs::Any::String(x)) => {
                    for ch in x.chars() {
                        v.push(json!([ch.to_string(), at]));
                    }
                }
                other => v.push(json!([{ "embed": tree(other, txn) }, at])),
            }
        }
        Value::Array(v)
    };
    match o {
        yrs::Out::Any(a) => json!(any_str(a)),
        yrs::Out::YText(t) => json!({ "#text": text(t) }),
        yrs::Out::YXmlText(t) => {
            let tr: &yrs::TextRef = t.as_ref();
            let attrs: serde_json::Map<String, Value> = t.attributes(txn).map(|(k, v)| (k.to_string(), tree(&v, txn))).collect();
            json!({ "#xmltext": text(tr), "#attrs": Value::Object(attrs) })
        }
        yrs::Out::YArray(a) => Value::Array(a.iter(txn).map(|x| tree(&x, txn)).collect()),
        yrs::Out::YMap(m) => Value::Object(m.iter(txn).map(|(k, v)| (k.to_string(), tree(&v, txn))).collect()),
        yrs::Out::YXmlElement(e) => {
            let attrs: serde_json::Map<String, Value> = e.attributes(txn).map(|(k, v)| (k.to_string(), tree(&v, txn))).collect();
            json!({ "#tag": e.tag().to_string(), "#attrs": Value::Object(attrs), "#children": Value::Array(e.children(txn).map(|c| tree(&xml_out(&c), txn)).collect()) })
        }
        yrs::Out::YXmlFragment(e) => Value::Array(e.children(txn).map(|c| tree(&xml_out(&c), txn)).collect()),
        other => json!(shallow(other)),
    }
}

/// True if the two trees have the same shape and every sequence holds the same elements, in another order somewhere.
fn only_reordered(got: &serde_json::Value, want: &serde_json::Value) -> bool {
    fn walk(got: &serde_json::Value, want: &serde_json::Value, reordered: &mut u32) -> bool {
        use serde_json::Value;
        match (got, want) {
            (Value::Object(g), Value::Object(w)) => g.len() == w.len() && g.iter().all(|(k, gv)| w.get(k).map_or(false, |wv| walk(gv, wv, reordered))),
            (Value::Array(g), Value::Array(w)) => {
                if g == w {
                    return true;
                }
                // same positions, differences further down (an array of containers)
                if g.len() == w.len() {
                    let mut inner = 0;
                    if g.iter().zip(w.iter()).all(|(x, y)| walk(x, y, &mut inner)) {
                        *reordered += inner;
                        return true;
                    }
                }
                let mut a: Vec<String> = g.iter().map(|x| x.to_string()).collect();
                let mut b: Vec<String> = w.iter().map(|x| x.to_string()).collect();
                a.sort();
                b.sort();
                if a == b {
                    *reordered += 1;
                    true
                } else {
                    false
                }
            }
            (a, b) => a == b,
        }
    }
    let mut reordered = 0;
    walk(got, want, &mut reordered) && reordered > 0
}

/// The tree with the formatting attributes of text elements left out.
fn strip_attrs(v: &serde_json::Value) -> serde_json::Value {
    use serde_json::Value;
    match v {
        Value::Object(o) => Value::Object(
            o.iter()
                .map(|(k, x)| {
                    if k == "#text" || k == "#xmltext" {
                        let elems = x.as_array().map(|a| a.iter().map(|e| e.get(0).map(strip_attrs).unwrap_or(Value::Null)).collect()).unwrap_or_default();
                        (k.clone(), Value::Array(elems))
                    } else {
                        (k.clone(), strip_attrs(x))
                    }
                })
                .collect(),
        ),
        Value::Array(a) => Value::Array(a.iter().map(strip_attrs).collect()),
        other => other.clone(),
    }
}

/// True if `want` can be obtained from `got` by adding whole map components (map entries / XML attributes) only: every
/// sequence and every value present in both is equal, and at least one key of `want` is absent from `got`.
fn only_missing_keys(got: &serde_json::Value, want: &serde_json::Value) -> bool {
    fn walk(got: &serde_json::Value, want: &serde_json::Value, missing: &mut u32) -> bool {
        use serde_json::Value;
        match (got, want) {
            (Value::Object(g), Value::Object(w)) => {
                for (k, gv) in g.iter() {
                    match w.get(k) {
                        None => return false,
                        Some(wv) => {
                            if !walk(gv, wv, missing) {
                                return false;
                            }
                        }
                    }
                }
                for k in w.keys() {
                    if !g.contains_key(k) {
                        if k.starts_with('#') {
                            return false;
                        }
                        *missing += 1;
                    }
                }
                true
            }
            (Value::Array(g), Value::Array(w)) => g.len() == w.len() && g.iter().zip(w.iter()).all(|(a, b)| walk(a, b, missing)),
            (a, b) => a == b,
        }
    }
    let mut missing = 0;
    walk(got, want, &mut missing) && missing > 0
}

fn xml_out(x: &yrs::XmlOut) -> yrs::Out {
    match x {
        yrs::XmlOut::Element(e) => yrs::Out::YXmlElement(e.clone()),
        yrs::XmlOut::Fragment(e) => yrs::Out::YXmlFragment(e.clone()),
        yrs::XmlOut::Text(e) => yrs::Out::YXmlText(e.clone()),
    }
}

/// The scoped types as an id-free tree (JSON text), used to classify a failed inverse check.
fn scoped_seq(roots: &Roots, doc: &yrs::Doc) -> String {
    let txn = doc.transact();
    serde_json::json!({
        "t": tree(&yrs::Out::YText(roots.t.clone()), &txn),
        "m": tree(&yrs::Out::YMap(roots.m.clone()), &txn),
        "x": tree(&yrs::Out::YXmlFragment(roots.x.clone()), &txn),
    })
    .to_string()
}

/// The state in which the conflict rule of `redo` refuses, on the unchanged tree, to restore a map entry / XML attribute:
/// on some key's chain of a live scoped type there is an entry X that the call was to restore (deleted, not redone, named
/// by a stack entry before the call and by none after it - its entry was popped) and, to its right (newer), an entry Y
/// that is deleted, not redone and named by no stack entry after the call (it may have been named by an entry that the
/// same call popped and passed over). The walk over X's right neighbours passes redone entries, entries the call deletes
/// itself and entries that some remaining stack entry deleted, and stops at Y.
/// A refusal in front of a neighbour whose deletion *is* on a stack is not part of the finding: the rule has to pass it.
fn shadowed_chain<F: Fn(&yrs::ID) -> bool>(roots: &Roots, doc: &yrs::Doc, mgr: &yrs::undo::UndoManager<()>, named_before: F) -> bool {
    let txn = doc.transact();
    let named_after = |id: &yrs::ID| mgr.undo_stack().iter().chain(mgr.redo_stack().iter()).any(|e| e.deletions().contains(id));
    for (h, _) in live_types(roots, &txn) {
        for k in 0..6u8 {
            for key in [crate::ops::key_name(k), format!("x{}", k)] {
                if let Some(chain) = yrs::verif::map_chain(&txn, &h.id(), &key) {
                    // the hook lists the chain from its newest (rightmost) entry leftwards
                    for (i, x) in chain.iter().enumerate() {
                        let refused = x.deleted && x.redone.is_none() && named_before(&x.id) && !named_after(&x.id);
                        if refused && chain[..i].iter().any(|y| y.deleted && y.redone.is_none() && !named_after(&y.id)) {
                            return true;
                        }
                    }
                }
            }
        }
    }
    false
}

/// True if the store holds a nested shared type that undo/redo has re-created (an item with type content and a `redone`
/// link), or an element whose redone copy has itself been redone (several generations of copies): the states in which the
/// neighbour search of `ItemPtr::redo` has to trace `redone` links.
fn restored_container(doc: &yrs::Doc) -> bool {
    let txn = doc.transact();
    let blocks = yrs::verif::store_blocks(&txn);
    if blocks.iter().any(|b| b.kind == 0 && b.content == 7 && b.redone.is_some()) {
        return true;
    }
    let redone_at = |id: &yrs::ID| blocks.iter().find(|b| b.kind == 0 && b.id.client == id.client && b.id.clock <= id.clock && id.clock < b.id.clock + b.len).map_or(false, |b| b.redone.is_some());
    blocks.iter().any(|b| b.kind == 0 && b.redone.as_ref().map_or(false, |r| redone_at(r)))
}

fn unscoped(roots: &Roots, doc: &yrs::Doc) -> String {
    let txn = doc.transact();
    let items = yrs::verif::branch_items(&txn, &Handle::Array(roots.a.clone()).id()).unwrap_or_default();
    // unit level (block squashing/splitting is not a change): id and deleted flag of every unit
    let mut shape: Vec<String> = vec![];
    for i in items.iter() {
        for k in 0..i.len {
            shape.push(format!("{}#{}{}", i.id.client.get(), i.id.clock + k, if i.deleted { "d" } else { "" }));
        }
    }
    format!("{} {:?}", dump_array(&roots.a, &txn), shape)
}

/// Labels of the elements of every live sequence, per container.
fn sequences(roots: &Roots, doc: &yrs::Doc) -> HashMap<String, Vec<String>> {
    let txn = doc.transact();
    let mut out = HashMap::new();
    for (h, _) in live_types(roots, &txn) {
        let c = format!("{:?}", h.id());
        let l: Vec<String> = match &h {
            Handle::Text(_) | Handle::XText(_) => text_labels(&h.as_text().unwrap(), &txn).0,
            Handle::Array(a) => a.iter(&txn).map(|o| label_of_out(&o)).collect(),
            Handle::XFrag(f) => f.children(&txn).map(|o| format!("#{:?}", o.id())).collect(),
            Handle::XElem(f) => f.children(&txn).map(|o| format!("#{:?}", o.id())).collect(),
            Handle::Map(_) => continue,
        };
        out.insert(c, l);
    }
    out
}

fn foreign_labels(effects: &[Effect]) -> Vec<(String, String)> {
    let mut out = vec![];
    for e in effects {
        match e {
            Effect::TextInsert { c, s, .. } => {
                for ch in s.chars() {
                    out.push((c.clone(), format!("c{}", ch)));
                }
            }
            Effect::SeqInsert { c, items, .. } => {
                for it in items {
                    if let Item::Prim(l) = it {
                        out.push((c.clone(), l.clone()));
                    }
                }
            }
            _ => {}
        }
    }
    out
}

pub fn run_undo(prog: &UProgram) -> UResult {
    crate::util::note_candidate("undo", "C12", &serde_json::to_value(prog).unwrap());
    let doc = make_doc(1, prog.gc, prog.bytes, true);
    let roots = Roots::of(&doc);
    let peer = make_doc(2, false, !prog.bytes, true);
    let proots = Roots::of(&peer);
    let kind = if prog.bytes { OffsetKind::Bytes } else { OffsetKind::Utf16 };
    let pkind = if prog.bytes { OffsetKind::Utf16 } else { OffsetKind::Bytes };
    let clock = Arc::new(AtomicU64::new(10_000));
    let c2 = clock.clone();
    let mut opts = yrs::undo::Options::<()>::default();
    opts.capture_timeout_millis = 100;
    opts.timestamp = Arc::new(move || c2.load(Ordering::SeqCst));
    let mut mgr = yrs::undo::UndoManager::with_options(opts);
    mgr.expand_scope(&doc, &roots.t);
    mgr.expand_scope(&doc, &roots.m);
    mgr.expand_scope(&doc, &roots.x);
    let mut cnt = Counters::default();
    let mut log: Vec<String> = vec![];
    let mut tagn = 0u32;
    let mut nchars = 0u32;
    let mut undo_m: Vec<Entry> = vec![];
    let mut redo_m: Vec<Entry> = vec![];
    let mut foreign: Vec<(String, String)> = vec![];
    let mut redo_cleared_nonempty = false;
    let mut scoped_seen: HashSet<(u64, u32)> = HashSet::new();
    let mut holder_of: HashMap<(u64, u32), (u64, u32)> = HashMap::new();
    let mut violation: Option<(String, String)> = None;
    let tail = |log: &Vec<String>| log[log.len().saturating_sub(10)..].join(" ; ");
    macro_rules! fail {
        ($k:expr, $d:expr) => {{
            violation = Some(($k.to_string(), format!("{} ;; steps: {}", $d, tail(&log))));
            break;
        }};
    }
    for step in &prog.steps {
        let (ul, rl) = (mgr.undo_stack().len(), mgr.redo_stack().len());
        if ul != undo_m.len() || rl != redo_m.len() {
            fail!("harness", format!("mirror out of sync: stacks {}/{} mirror {}/{}", ul, rl, undo_m.len(), redo_m.len()));
        }
        if let Some(d) = kept_content_collected(&mgr, &doc, &mut scoped_seen, &mut holder_of, &mut cnt) {
            fail!("kept-content-collected", d);
        }
        let before = scoped(&roots, &doc);
        let before_seq = scoped_seq(&roots, &doc);
        let before_un = unscoped(&roots, &doc);
        match step {
            UStep::Tick { ms } => {
                clock.fetch_add(*ms as u64, Ordering::SeqCst);
                log.push(format!("tick {}", ms));
            }
            UStep::Edit { tracked, calls } => {
                let mut effects = vec![];
                let res = catch(|| {
                    let mut txn = if *tracked { doc.transact_mut() } else { doc.transact_mut_with("other") };
                    let mut ctx = OpCtx { tagn: &mut tagn, kind, log: &mut log, rid: if *tracked { 1 } else { 11 }, max_depth: 3, ascii: false, nchars: &mut nchars };
                    for c in calls {
                        effects.extend(exec_call(c, &roots, &mut txn, &mut ctx));
                    }
                });
                if let Err(p) = res {
                    fail!(format!("panic:{}", p.split(' ').next().unwrap_or("")), format!("a valid edit panicked with an undo manager attached: {}", p));
                }
                let after = scoped(&roots, &doc);
                let (ul2, rl2) = (mgr.undo_stack().len(), mgr.redo_stack().len());
                if *tracked {
                    cnt.inc("tracked_edits");
                    // foreign elements removed by a tracked edit become the tracked origin's business:
                    // undo/redo may legitimately restore and remove them again
                    let seqs = sequences(&roots, &doc);
                    foreign.retain(|(c, l)| seqs.get(c).map(|v| v.contains(l)).unwrap_or(false));
                    let after_seq = scoped_seq(&roots, &doc);
                    if (ul2 == ul + 1 || after != before) && !redo_m.is_empty() {
                        redo_cleared_nonempty = true;
                    }
                    if ul2 == ul + 1 {
                        undo_m.push(Entry { before: before.clone(), after, before_seq: before_seq.clone(), after_seq, tainted: false });
                        redo_m.clear();
                        cnt.inc("steps_captured");
                    } else if ul2 == ul {
                        if after != before {
                            match undo_m.last_mut() {
                                Some(top) => {
                                    top.after = after;
                                    top.after_seq = after_seq;
                                    redo_m.clear();
                                    cnt.inc("steps_merged_by_capture_timeout");
                                }
                                None => fail!("not-captured", "a tracked edit changed the scoped types but nothing was captured"),
                            }
                        }
                    } else {
                        fail!("stack-jump", format!("undo stack went from {} to {} in one edit", ul, ul2));
                    }
                    if rl2 != redo_m.len() {
                        if rl2 == 0 {
                            redo_m.clear();
                        } else {
                            fail!("redo-not-cleared", format!("a new captured edit left {} entries on the redo stack (mirror {})", rl2, redo_m.len()));
                        }
                    }
                } else {
                    cnt.inc("foreign_origin_edits");
                    if ul2 != ul || rl2 != rl {
                        fail!("foreign-captured", format!("an edit of an untracked origin changed the stacks {}->{} / {}->{}", ul, ul2, rl, rl2));
                    }
                    // any edit of another origin voids the inverse law for the steps captured so far,
                    // also when its net effect on the content is nil (insert + remove of an entry)
                    if after != before || effects.iter().any(|e| !matches!(e, Effect::Nop)) {
                        for e in undo_m.iter_mut().chain(redo_m.iter_mut()) {
                            e.tainted = true;
                        }
                    }
                    foreign.extend(foreign_labels(&effects));
                }
            }
            UStep::Remote { calls } => {
                let mut effects = vec![];
                let res = catch(|| {
                    let mut txn = peer.transact_mut();
                    let mut ctx = OpCtx { tagn: &mut tagn, kind: pkind, log: &mut log, rid: 2, max_depth: 3, ascii: false, nchars: &mut nchars };
                    for c in calls {
                        effects.extend(exec_call(c, &proots, &mut txn, &mut ctx));
                    }
                });
                if let Err(p) = res {
                    fail!("harness", format!("peer edit panicked: {}", p));
                }
                let sv = doc.transact().state_vector();
                let upd = peer.transact().encode_state_as_update_v1(&sv);
                let d2 = doc.clone();
                let res = catch(move || d2.transact_mut_with("remote").apply_update(Update::decode_v1(&upd).unwrap()));
                match res {
                    Err(p) => fail!(format!("panic:{}", p.split(' ').next().unwrap_or("")), format!("applying a remote update with an undo manager attached panicked: {}", p)),
                    Ok(Err(e)) => fail!("apply-error", format!("{}", e)),
                    _ => {}
                }
                cnt.inc("remote_updates");
                let after = scoped(&roots, &doc);
                if mgr.undo_stack().len() != ul || mgr.redo_stack().len() != rl {
                    fail!("foreign-captured", "a remote update (origin \"remote\") changed the undo/redo stacks");
                }
                if after != before || effects.iter().any(|e| !matches!(e, Effect::Nop)) {
                    for e in undo_m.iter_mut().chain(redo_m.iter_mut()) {
                        e.tainted = true;
                    }
                }
                foreign.extend(foreign_labels(&effects));
            }
            UStep::Gc => {
                let d2 = doc.clone();
                log.push("force gc".into());
                if let Err(p) = catch(move || d2.transact_mut_with("other").gc(None)) {
                    fail!(format!("panic:{}", p.split(' ').next().unwrap_or("")), format!("forced gc panicked: {}", p));
                }
                if scoped(&roots, &doc) != before {
                    fail!("gc-visible", "forced gc changed the scoped content");
                }
            }
            UStep::Undo | UStep::Redo => {
                let is_undo = matches!(step, UStep::Undo);
                log.push(if is_undo { "undo".into() } else { "redo".into() });
                let seq_before = sequences(&roots, &doc);
                if crate::util::debug() {
                    log.push(format!("      undo stack {:?} ; redo stack {:?}", mgr.undo_stack(), mgr.redo_stack()));
                    log.push(format!("      store {:?}", yrs::verif::store_blocks(&doc.transact()).iter().map(|b| format!("{}#{}:{}{}{}", b.id.client.get(), b.id.clock, b.len, if b.deleted { "d" } else { "" }, b.redone.map(|r| format!("->{}#{}", r.client.get(), r.clock)).unwrap_or_default())).collect::<Vec<_>>()));
                }
                // what the stack entries name before the call (the popped entry is gone afterwards)
                let named_before: Vec<_> = mgr.undo_stack().iter().chain(mgr.redo_stack().iter()).map(|e| e.deletions().clone()).collect();
                let res = catch(|| if is_undo { mgr.undo_blocking() } else { mgr.redo_blocking() });
                let ok = match res {
                    Err(p) => fail!(format!("panic:{}", p.split(' ').next().unwrap_or("")), format!("{} panicked: {}", if is_undo { "undo" } else { "redo" }, p)),
                    Ok(ok) => ok,
                };
                cnt.inc(if is_undo { "undo_calls" } else { "redo_calls" });
                let after = scoped(&roots, &doc);
                if unscoped(&roots, &doc) != before_un {
                    fail!("untracked-type-touched", format!("{} changed the untracked array 'a'", if is_undo { "undo" } else { "redo" }));
                }
                let (ul2, rl2) = (mgr.undo_stack().len(), mgr.redo_stack().len());
                let (src_len, src_len2) = if is_undo { (ul, ul2) } else { (rl, rl2) };
                if src_len2 > src_len {
                    fail!("stack-jump", format!("{} grew its own stack {} -> {}", if is_undo { "undo" } else { "redo" }, src_len, src_len2));
                }
                let popped = src_len - src_len2;
                let mut deepest: Option<Entry> = None;
                for _ in 0..popped {
                    deepest = if is_undo { undo_m.pop() } else { redo_m.pop() };
                }
                if !ok {
                    if after != before {
                        fail!("false-but-changed", format!("{} returned false but the scoped content changed", if is_undo { "undo" } else { "redo" }));
                    }
                    let (o, o2) = if is_undo { (rl, rl2) } else { (ul, ul2) };
                    if o != o2 {
                        fail!("false-but-pushed", format!("{} returned false but the other stack changed {} -> {}", if is_undo { "undo" } else { "redo" }, o, o2));
                    }
                    continue;
                }
                cnt.inc(if is_undo { "undo_effective" } else { "redo_effective" });
                if popped == 0 {
                    fail!("true-but-nothing-popped", format!("{} returned true but popped nothing", if is_undo { "undo" } else { "redo" }));
                }
                if popped > 1 {
                    cnt.inc("steps_passed_over");
                }
                let e = deepest.unwrap();
                if !e.tainted {
                    cnt.inc("inverse_law_checks");
                    let want = if is_undo { &e.before } else { &e.after };
                    if &after != want {
                        // sub-population: only map components differ, and an earlier new edit threw
                        // away a non-empty redo stack (the conflict rule of redo then refuses map
                        // entries whose newer values were removed by the discarded steps)
                        let want_seq = if is_undo { &e.before_seq } else { &e.after_seq };
                        if crate::util::debug() {
                            let txn = doc.transact();
                            let mut bl = yrs::verif::store_blocks(&txn);
                            bl.sort_by_key(|b| (b.id.client, b.id.clock));
                            for b in &bl {
                                eprintln!("   {}:{}+{} k{} c{} del{} keep{} o{:?} r{:?} p{:?} redone{:?} {}", b.id.client, b.id.clock, b.len, b.kind, b.content, b.deleted, b.keep, b.origin.map(|i| (i.client.get(), i.clock)), b.right_origin.map(|i| (i.client.get(), i.clock)), b.parent, b.redone.map(|i| (i.client.get(), i.clock)), b.text);
                            }
                        }
                        // the map-entry sub-populations: the only difference is that map components (entries / attributes) of the
                        // expected content are absent - every sequence and every value present on both sides is equal
                        if crate::util::debug() {
                            eprintln!("TREE got  {}\nTREE want {}", scoped_seq(&roots, &doc), want_seq);
                        }
                        let got_tree: serde_json::Value = serde_json::from_str(&scoped_seq(&roots, &doc)).unwrap_or_default();
                        let want_tree: serde_json::Value = serde_json::from_str(want_seq).unwrap_or_default();
                        let shadowed = shadowed_chain(&roots, &doc, &mgr, |id: &yrs::ID| named_before.iter().any(|d| d.contains(id)));
                        let restored = restored_container(&doc);
                        let classify = |got: &serde_json::Value, want: &serde_json::Value| -> &'static str {
                            let only_maps = only_missing_keys(got, want);
                            if only_maps && redo_cleared_nonempty && shadowed {
                                ":map-entry-after-discarded-redo"
                            } else if only_maps && shadowed {
                                // second sub-population of the same conflict rule: the entry to restore has a newer entry to its
                                // right on the key's chain that this undo step did not delete itself (a later tracked step wrote
                                // and removed the key again); redo then refuses the entry, as Yjs does
                                ":map-entry-shadowed-by-newer-deleted-entry"
                            } else if restored && {
                                // observed on the unchanged tree: after an undo the elements are all there, in another order; after
                                // a redo an element of a re-created container may also be missing. An element that an *undo* fails
                                // to bring back is not part of this finding and stays reportable.
                                let (g2, w2) = (strip_attrs(got), strip_attrs(want));
                                only_reordered(got, want) || g2 == w2 || only_reordered(&g2, &w2) || !is_undo
                            } {
                                // third sub-population: a nested type was removed and brought back by undo/redo (a re-created copy),
                                // and steps captured inside the old or the new copy are undone / redone afterwards
                                ":content-of-restored-container"
                            } else {
                                ""
                            }
                        };
                        let mut sub = classify(&got_tree, &want_tree);
                        if sub.is_empty() {
                            // two findings may show in one step (e.g. a map entry that is refused and, in another root type,
                            // reordered content of a re-created container): the step is classified root by root, and carries a
                            // listed signature only if *every* differing root does - otherwise it stays unclassified
                            let mut subs: Vec<&'static str> = vec![];
                            for k in ["t", "m", "x"] {
                                let (g, w) = (&got_tree[k], &want_tree[k]);
                                if g != w {
                                    subs.push(classify(g, w));
                                }
                            }
                            if subs.len() >= 2 && subs.iter().all(|s| !s.is_empty()) {
                                cnt.inc("inverse_law_two_findings_in_one_step");
                                sub = subs[0];
                            }
                        }
                        fail!(format!("{}{}", if is_undo { "undo-not-inverse" } else { "redo-not-inverse" }, sub), format!("after {} (popped {} step(s), no foreign edits in between) the scoped types differ from their content {} the step\n   got  {}\n   want {}", if is_undo { "undo" } else { "redo" }, popped, if is_undo { "before" } else { "after" }, after, want));
                    }
                } else {
                    cnt.inc("foreign_interleaved_checks");
                }
                // foreign elements stay visible in their relative order (unless their container is gone)
                let seq_after = sequences(&roots, &doc);
                for (c, labels) in seq_before.iter() {
                    let Some(now) = seq_after.get(c) else { continue };
                    let f_before: Vec<&String> = labels.iter().filter(|l| foreign.iter().any(|(fc, fl)| fc == c && fl == *l)).collect();
                    let f_after: Vec<&String> = now.iter().filter(|l| f_before.contains(l)).collect();
                    if f_before != f_after {
                        fail!("foreign-element-affected", format!("{} removed or reordered elements of an untracked origin in {}: before {:?} after {:?}", if is_undo { "undo" } else { "redo" }, c, f_before, f_after));
                    }
                }
                let (o, o2) = if is_undo { (rl, rl2) } else { (ul, ul2) };
                if o2 == o + 1 {
                    // the entry on the other stack reverts this call: for a redo entry `after` is the
                    // content a redo must give back (= before this undo), and vice versa
                    let after_seq = scoped_seq(&roots, &doc);
                    if is_undo {
                        redo_m.push(Entry { before: after.clone(), after: before.clone(), before_seq: after_seq, after_seq: before_seq.clone(), tainted: e.tainted });
                    } else {
                        undo_m.push(Entry { before: before.clone(), after: after.clone(), before_seq: before_seq.clone(), after_seq, tainted: e.tainted });
                    }
                } else if e.tainted && o2 == o {
                    // another origin edited in between (e.g. deleted the container the popped step lived in): the call may
                    // have nothing visible left to revert and record no counterpart; the property promises stack behaviour
                    // only without foreign edits
                    cnt.inc("tainted_step_without_counterpart");
                } else {
                    fail!("other-stack", format!("{} changed the other stack by {}", if is_undo { "undo" } else { "redo" }, o2 as i64 - o as i64));
                }
            }
        }
    }
    // undo and redo are ordinary replicated operations: both sides converge
    if violation.is_none() {
        let res = catch(|| {
            for _ in 0..3 {
                let u = doc.transact().encode_state_as_update_v1(&peer.transact().state_vector());
                peer.transact_mut().apply_update(Update::decode_v1(&u).unwrap()).unwrap();
                let u = peer.transact().encode_state_as_update_v1(&doc.transact().state_vector());
                doc.transact_mut_with("remote").apply_update(Update::decode_v1(&u).unwrap()).unwrap();
            }
        });
        if let Err(p) = res {
            violation = Some((format!("panic:{}", p.split(' ').next().unwrap_or("")), format!("final sync panicked: {} ;; steps: {}", p, tail(&log))));
        } else {
            let (a, b) = (dump_doc(&roots, &doc.transact()), dump_doc(&proots, &peer.transact()));
            cnt.inc("final_convergence_checks");
            if a != b {
                if crate::util::debug() {
                    for (name, d) in [("doc", &doc), ("peer", &peer)] {
                        let txn = d.transact();
                        eprintln!("--- items of {}", name);
                        let mut bl = yrs::verif::store_blocks(&txn);
                        bl.sort_by_key(|b| (b.id.client, b.id.clock));
                        for b in &bl {
                            eprintln!("   {}:{}+{} k{} c{} del{} o{:?} r{:?} p{:?} redone{:?} {}", b.id.client, b.id.clock, b.len, b.kind, b.content, b.deleted, b.origin.map(|i| (i.client.get(), i.clock)), b.right_origin.map(|i| (i.client.get(), i.clock)), b.parent, b.redone.map(|i| (i.client.get(), i.clock)), b.text);
                        }
                    }
                }
                violation = Some(("diverge".into(), format!("after syncing the undo/redo transactions the peer differs\n   {}\n   {} ;; steps: {}", a, b, tail(&log))));
            }
            let _ = StateVector::default();
        }
    }
    UResult { violation, cnt, log }
}

/// C15 (last sentence) / C12: content an undo manager may still need is not collected. Every id in the deletions of an
/// entry of the undo or redo stack must still be an item that holds its content (not a GC range, not `Deleted` content).
fn kept_content_collected(mgr: &yrs::undo::UndoManager<()>, doc: &yrs::Doc, scoped_seen: &mut HashSet<(u64, u32)>, holder_of: &mut HashMap<(u64, u32), (u64, u32)>, cnt: &mut Counters) -> Option<String> {
    let txn = doc.transact();
    let blocks = yrs::verif::store_blocks(&txn);
    // units that belong to the scope (root 't', 'm' or 'x'), remembered while their items still say where they live:
    // a tracked transaction may also delete in the untracked array, whose tombstones are rightly collected
    let parent_of: HashMap<(u64, u32), &yrs::verif::ParentInfo> = blocks.iter().filter(|b| b.kind == 0).map(|b| ((b.id.client.get(), b.id.clock), &b.parent)).collect();
    let starts: Vec<(u64, u32, u32)> = blocks.iter().filter(|b| b.kind == 0).map(|b| (b.id.client.get(), b.id.clock, b.len)).collect();
    let holder = |id: &yrs::ID| -> Option<(u64, u32)> { starts.iter().find(|(c, k, l)| *c == id.client.get() && *k <= id.clock && id.clock < k + l).map(|(c, k, _)| (*c, *k)) };
    for b in blocks.iter().filter(|b| b.kind == 0 && b.content != 1) {
        let mut p = &b.parent;
        let mut hops = 0;
        let root = loop {
            match p {
                yrs::verif::ParentInfo::Root(n) => break Some(n.to_string()),
                yrs::verif::ParentInfo::Nested(id) => match holder(id).and_then(|h| parent_of.get(&h)) {
                    Some(pp) => p = pp,
                    None => break None,
                },
                yrs::verif::ParentInfo::Inherit => break None,
            }
            hops += 1;
            if hops > 64 {
                break None;
            }
        };
        if matches!(root.as_deref(), Some("t") | Some("m") | Some("x")) {
            // the item that holds the collection this block lives in (none for children of a root type)
            let direct = if let yrs::verif::ParentInfo::Nested(id) = &b.parent { holder(id) } else { None };
            for k in b.id.clock..b.id.clock + b.len {
                scoped_seen.insert((b.id.client.get(), k));
                if let Some(h) = direct {
                    holder_of.insert((b.id.client.get(), k), h);
                }
            }
        }
    }
    let mut collected: HashSet<(u64, u32)> = HashSet::new();
    for b in blocks.iter() {
        if b.kind == 1 || (b.kind == 0 && b.content == 1) {
            for k in b.id.clock..b.id.clock + b.len {
                collected.insert((b.id.client.get(), k));
            }
        }
    }
    let mut looked = 0u64;
    for (name, stack) in [("undo", mgr.undo_stack()), ("redo", mgr.redo_stack())] {
        for (i, item) in stack.iter().enumerate() {
            for (client, ranges) in item.deletions().iter() {
                for r in ranges.iter() {
                    for k in r.start..r.end {
                        let u = (client.get(), k);
                        if !scoped_seen.contains(&u) {
                            continue;
                        }
                        // content inside a collection that is itself collected cannot be restored by anyone (there is
                        // no type left to put it into); if the stacks needed that collection, its own unit is reported
                        let mut anc = holder_of.get(&u).copied();
                        let mut hops = 0;
                        let mut lost_container = false;
                        while let Some(a) = anc {
                            if collected.contains(&a) {
                                lost_container = true;
                                break;
                            }
                            anc = holder_of.get(&a).copied();
                            hops += 1;
                            if hops > 64 {
                                break;
                            }
                        }
                        if lost_container {
                            cnt.inc("kept_units_inside_a_collected_container");
                            continue;
                        }
                        looked += 1;
                        if collected.contains(&u) {
                            return Some(format!("unit ({}, {}) of a scoped type is named by the deletions of entry {} of the {} stack but its content has been collected (gc)", client.get(), k, i, name));
                        }
                    }
                }
            }
        }
    }
    cnt.add("kept_units_checked", looked);
    None
}

pub fn gen_undo(rng: &mut Rng, thorough: bool, gc_heavy: bool) -> UProgram {
    let mut p = Profile::general();
    p.subdocs = false;
    p.nested = 15;
    p.keys = 2;
    p.calls = [12, 4, 2, 5, 8, 2, 2, 4, 3, 2, 4, 10, 2, 5, 1, 1, 4, 3, 3, 2, 0, 0];
    let n = if thorough && rng.u8(0..6) == 0 { rng.usize(60..150) } else { rng.usize(6..50) };
    let foreign = rng.u8(0..3) == 0;
    let mut steps = vec![];
    for _ in 0..n {
        let k = rng.usize(1..3);
        steps.push(match rng.u8(0..20) {
            9 | 15 if gc_heavy => UStep::Gc,
            0..=8 => UStep::Edit { tracked: true, calls: (0..k).map(|_| gen_call(rng, &p)).collect() },
            9 | 10 => UStep::Tick { ms: if rng.bool() { 500 } else { 10 } },
            11..=14 => UStep::Undo,
            15..=17 => UStep::Redo,
            18 if foreign => {
                if rng.bool() {
                    UStep::Edit { tracked: false, calls: (0..k).map(|_| gen_call(rng, &p)).collect() }
                } else {
                    UStep::Remote { calls: (0..k).map(|_| gen_call(rng, &p)).collect() }
                }
            }
            19 => UStep::Gc,
            _ => UStep::Tick { ms: 500 },
        });
    }
    let gc = rng.bool();
    UProgram { gc: gc || gc_heavy, bytes: rng.bool(), steps }
}

fn minimise(prog: &UProgram, kind: &str, budget: usize) -> UProgram {
    let mut best = prog.clone();
    let mut runs = 0;
    let mut n = 2usize;
    let same = |p: &UProgram| matches!(&run_undo(p).violation, Some((k, _)) if k == kind);
    while best.steps.len() >= 2 && runs < budget {
        let len = best.steps.len();
        let chunk = (len + n - 1) / n;
        let mut reduced = false;
        let mut i = 0;
        while i < len && runs < budget {
            let mut cand = best.clone();
            cand.steps.drain(i..(i + chunk).min(len));
            runs += 1;
            if same(&cand) {
                best = cand;
                n = (n - 1).max(2);
                reduced = true;
                break;
            }
            i += chunk;
        }
        if !reduced {
            if n >= len {
                break;
            }
            n = (n * 2).min(len);
        }
    }
    for si in 0..best.steps.len() {
        if runs >= budget {
            break;
        }
        let ncalls = match &best.steps[si] {
            UStep::Edit { calls, .. } | UStep::Remote { calls } => calls.len(),
            _ => 0,
        };
        let mut ci = 0;
        let mut nc = ncalls;
        while nc > 1 && ci < nc && runs < budget {
            let mut cand = best.clone();
            match &mut cand.steps[si] {
                UStep::Edit { calls, .. } | UStep::Remote { calls } => {
                    calls.remove(ci);
                }
                _ => {}
            }
            runs += 1;
            if same(&cand) {
                best = cand;
                nc -= 1;
            } else {
                ci += 1;
            }
        }
    }
    best
}

pub fn cmd_undo(args: &Args) -> i32 {
    let tier = args.str("tier", "quick");
    let seed = args.u64("seed", 1);
    let prop = args.str("as", "C12");
    let from = args.u64("from", 0);
    let count = args.u64("count", 100);
    let out = args.str("out", "");
    let replay_dir = args.str("replay-dir", "/verif/replays");
    let progress = args.str("progress", "");
    if !progress.is_empty() {
        crate::util::set_candidate_path(&format!("{}.cand", progress));
    }
    let mut total = Counters::default();
    let mut hashes = vec![];
    let mut violations = vec![];
    let mut samples = vec![];
    let mut harness_errors = vec![];
    let mut seen: Vec<String> = vec![];
    let mut evaluations = 0u64;
    for idx in from..from + count {
        if !progress.is_empty() {
            if let Ok(mut f) = std::fs::File::create(&progress) {
                let _ = writeln!(f, "{}", idx);
            }
        }
        let mut rng = Rng::with_seed(crate::util::fnv_str(&format!("{}/{}/{}", seed, prop, idx)));
        let prog = gen_undo(&mut rng, tier == "thorough", prop == "C15");
        let mut res = run_undo(&prog);
        if prop == "C15" {
            // this population (gc always on, many forced collections) is reported under C15 for what C15 states:
            // forced gc changes nothing visible, and what the stacks still need keeps its content
            if let Some((k, _)) = &res.violation {
                if !(k == "kept-content-collected" || k == "gc-visible" || k.starts_with("panic:")) {
                    total.inc("violations_of_other_properties_not_reported_here");
                    res.violation = None;
                }
            }
        }
        evaluations += 1;
        total.merge(&res.cnt);
        if res.cnt.get("undo_effective") + res.cnt.get("redo_effective") >= 1 {
            hashes.push(crate::util::fnv_str(&res.log.join("\n")));
        }
        if samples.len() < 2 && res.violation.is_none() && res.cnt.get("undo_effective") > 0 {
            samples.push(json!({"idx": idx, "gc": prog.gc, "bytes": prog.bytes, "steps": res.log.iter().take(30).collect::<Vec<_>>()}));
        }
        if let Some((k, d)) = res.violation {
            if k == "harness" {
                harness_errors.push(json!({"idx": idx, "error": d}));
                continue;
            }
            let mut entry = json!({"prop": prop, "kind": k, "detail": d, "idx": idx});
            if !seen.contains(&k) {
                seen.push(k.clone());
                let min = minimise(&prog, &k, 400);
                let minres = run_undo(&min);
                let _ = std::fs::create_dir_all(&replay_dir);
                let path = format!("{}/{}-{}-s{}-i{}.json", replay_dir, prop, k.replace(|c: char| !c.is_alphanumeric(), "_"), seed, idx);
                let doc = json!({"workload": "undo", "prop": prop, "tier": tier, "seed": seed, "idx": idx,
                    "violation": {"prop": prop, "kind": k, "detail": d}, "program": prog,
                    "minimised": {"program": min, "log": minres.log, "detail": minres.violation.as_ref().map(|x| x.1.clone())}});
                if std::fs::write(&path, serde_json::to_string_pretty(&doc).unwrap()).is_ok() {
                    entry["replay"] = json!(path);
                }
                entry["min_steps"] = json!(min.steps.len());
                entry["min_detail"] = json!(minres.violation.map(|x| x.1));
            }
            if crate::util::room(&violations, entry["kind"].as_str().unwrap_or("")) {
                violations.push(entry);
            }
        }
    }
    let summary = json!({"workload": "undo", "prop": prop, "tier": tier, "seed": seed, "from": from, "count": count,
        "evaluations": evaluations, "hashes": hashes, "counters": total.0, "violations": violations, "samples": samples, "harness_errors": harness_errors});
    let text = serde_json::to_string(&summary).unwrap();
    if out.is_empty() {
        println!("{}", text);
    } else {
        std::fs::write(&out, text).unwrap();
    }
    0
}

pub fn replay_undo(doc: &serde_json::Value, full: bool) -> i32 {
    let which = if full { &doc["program"] } else { &doc["minimised"]["program"] };
    let program: UProgram = serde_json::from_value(which.clone()).unwrap();
    let res = run_undo(&program);
    for l in &res.log {
        println!("  {}", l);
    }
    match res.violation {
        Some((k, d)) => {
            println!("REPLAY violation property={} kind={}\n{}", doc["prop"].as_str().unwrap_or("C12"), k, d);
            1
        }
        None => {
            println!("REPLAY no violation");
            0
        }
    }
}
