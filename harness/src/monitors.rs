//! Property monitors that need their own state or their own step kinds (everything that is not
//! part of the core simulator loop in world.rs): C05, C06, C07, C08, C13, C14, C15.
use crate::dump::*;
use crate::model::*;
use crate::ops::{Effect, Item};
use crate::prog::{RepCfg, Step};
use crate::util::catch;
use crate::world::*;
use std::collections::{BTreeMap, HashMap, HashSet};
use yrs::updates::decoder::Decode;
use yrs::updates::encoder::{Encode, Encoder, EncoderV1, EncoderV2};
use yrs::{Assoc, Doc, IdSet, IndexedSequence, ReadTxn, Snapshot, StateVector, StickyIndex, Transact, Update};

/// What a transaction may change: visible content, integrated units, delete set.
#[derive(Clone, PartialEq, Debug)]
pub struct Finger {
    pub dump: String,
    pub units: usize,
    pub ds: IdSet,
}

pub fn finger(doc: &Doc, roots: &Roots) -> Finger {
    let txn = doc.transact();
    let blocks = yrs::verif::store_blocks(&txn);
    Finger { dump: dump_doc(roots, &txn), units: integrated_units(&blocks).len(), ds: txn.snapshot().delete_set }
}

pub struct Follower {
    pub doc: Doc,
    pub roots: Roots,
}

impl Follower {
    pub fn new(id: u64, gc: bool) -> Follower {
        let doc = make_doc(id, gc, false, false);
        let roots = Roots::of(&doc);
        Follower { doc, roots }
    }
    pub fn dump(&self) -> String {
        dump_doc(&self.roots, &self.doc.transact())
    }
    pub fn apply(&self, bytes: &[u8], v2: bool) -> Result<(), String> {
        let u = if v2 { Update::decode_v2(bytes) } else { Update::decode_v1(bytes) }.map_err(|e| format!("decode: {}", e))?;
        let doc = self.doc.clone();
        match catch(move || doc.transact_mut().apply_update(u)) {
            Err(p) => Err(format!("panic: {}", p)),
            Ok(Err(e)) => Err(format!("apply: {}", e)),
            Ok(Ok(())) => Ok(()),
        }
    }
}

pub struct SnapRec {
    pub r: usize,
    pub snap: Snapshot,
    pub dump: String,
    pub gapfree: bool,
    pub step: usize,
}

pub struct StickyRec {
    pub c: String,
    pub bid: yrs::BranchID,
    pub v1: Vec<u8>,
    pub json: String,
    pub after: bool,
    /// anchor unit (None for start/end-of-collection indexes)
    pub anchor: Option<Uid>,
    pub label: String,
    /// for indexes without an anchor: true = end of collection, false = start
    pub at_end: bool,
    pub created_on: usize,
}

/// One write to a (container, key) register.
pub struct LwwWrite {
    pub c: String,
    pub key: String,
    pub label: String,
    pub uid: Uid,
    /// writes (by index into `writes`) the author had integrated when it wrote this one
    pub ctx: HashSet<Uid>,
}

#[derive(Default)]
pub struct Ext {
    pub f1: Option<Follower>,
    pub f2: Option<Follower>,
    pub pre: Option<Finger>,
    pub pre_dup: Option<(usize, Finger)>,
    pub twins: Vec<Follower>,
    /// true: twins follow the shadowed replica's whole event stream (used when formatting
    /// clean-up is on somewhere); false: twins are handed the same payloads + local events
    pub twins_follow_events: bool,
    pub snaps: Vec<SnapRec>,
    pub stickies: Vec<StickyRec>,
    pub writes: Vec<LwwWrite>,
    /// nested containers: id -> unit of the item holding them
    pub nested: HashMap<String, Uid>,
    pub lww_concurrent: bool,
    pub c11: Option<crate::c11::C11State>,
    pub weak: crate::weak::WeakState,
    /// the author's own clock before its current local transaction
    pub clock_before: u32,
    pub lww_write_vs_remove: bool,
}

pub fn init(w: &mut World) {
    if w.mon.c11 {
        w.ext.c11 = Some(crate::c11::init(w));
    }
    if w.mon.c07 {
        w.ext.f1 = Some(Follower::new(800_001, true));
        w.ext.f2 = Some(Follower::new(800_002, false));
    }
    if w.mon.c15 {
        let cfgs: Vec<RepCfg> = w.reps.iter().map(|r| r.cfg.clone()).collect();
        w.ext.twins_follow_events = cfgs.iter().any(|c| c.cleanup);
        for (i, c) in cfgs.iter().enumerate() {
            // passive twin: opposite gc setting, no edits of its own, formatting clean-up off (its
            // clean-up deletions would never reach the replica it shadows)
            let doc = make_doc(700_000 + i as u64, !c.gc, c.bytes, false);
            let roots = Roots::of(&doc);
            w.ext.twins.push(Follower { doc, roots });
        }
    }
}

fn tail(w: &World) -> String {
    w.tail(6)
}

fn v<T>(w: &World, prop: &'static str, kind: &str, detail: String) -> Result<T, Violation> {
    viol(prop, kind, format!("{} ;; log tail: {}", detail, tail(w)))
}

/// Called before every transaction (local edit, delivery, forced gc) on replica `r`.
pub fn pre_txn(w: &mut World, r: usize) {
    if w.mon.c05 {
        let own = yrs::ClientID::new(w.reps[r].cfg.id);
        let txn = w.reps[r].doc.transact();
        w.ext.clock_before = yrs::verif::store_blocks(&txn).iter().filter(|b| b.id.client == own).map(|b| b.id.clock + b.len).max().unwrap_or(0);
    }
    if w.mon.c07 && r == 0 {
        w.ext.pre = Some(finger(&w.reps[0].doc, &w.reps[0].roots));
    }
}

/// C07: called with the events of exactly one transaction of replica `r`.
pub fn c07_events(w: &mut World, r: usize, v1: &[Vec<u8>], v2: &[Vec<u8>]) -> Result<(), Violation> {
    if r != 0 {
        return Ok(());
    }
    let id = w.reps[0].cfg.id;
    if v1.len() != v2.len() {
        return v(w, "C07", "event-count-mismatch", format!("one transaction of r{} emitted {} v1 and {} v2 update events", id, v1.len(), v2.len()));
    }
    if v1.len() > 1 {
        return v(w, "C07", "multiple-events", format!("one transaction of r{} emitted {} update events per encoding", id, v1.len()));
    }
    w.cnt.inc("c07_transactions");
    if let Some(pre) = w.ext.pre.take() {
        let post = finger(&w.reps[0].doc, &w.reps[0].roots);
        if pre == post && !v1.is_empty() {
            return v(w, "C07", "event-without-change", format!("a transaction of r{} that changed nothing (content, integrated units, delete set) emitted an update", id));
        }
        if pre != post && v1.is_empty() {
            let what = if pre.dump != post.dump { "content" } else if pre.units != post.units { "integrated blocks" } else { "the delete set" };
            return v(w, "C07", &format!("change-without-event:{}", what.replace(' ', "-")), format!("a transaction of r{} changed {} but emitted no update event", id, what));
        }
        if !v1.is_empty() {
            w.cnt.inc("c07_changing_transactions");
        }
    }
    for (i, bytes) in v1.iter().enumerate() {
        if let Err(e) = w.ext.f1.as_ref().unwrap().apply(bytes, false) {
            return v(w, "C07", &format!("follower-v1-{}", e.split(':').next().unwrap_or("")), format!("follower cannot apply the v1 update event: {}", e));
        }
        if let Err(e) = w.ext.f2.as_ref().unwrap().apply(&v2[i], true) {
            return v(w, "C07", &format!("follower-v2-{}", e.split(':').next().unwrap_or("")), format!("follower cannot apply the v2 update event: {}", e));
        }
        w.cnt.inc("c07_events");
    }
    let l = w.reps[0].dump();
    let d1 = w.ext.f1.as_ref().unwrap().dump();
    let d2 = w.ext.f2.as_ref().unwrap().dump();
    w.cnt.add("c07_follower_comparisons", 2);
    let gapped = has_skip(&yrs::verif::store_blocks(&w.reps[0].doc.transact()));
    if gapped {
        w.cnt.inc("c07_comparisons_while_leader_has_gap");
    }
    if l != d1 {
        return v(w, "C07", "follower-v1-differs", format!("the follower fed by the v1 event stream differs from the leader after a transaction (leader has gap: {}):\n   L {}\n   F {}", gapped, l, d1));
    }
    if l != d2 {
        return v(w, "C07", "follower-v2-differs", format!("the follower fed by the v2 event stream differs from the leader after a transaction (leader has gap: {}):\n   L {}\n   F {}", gapped, l, d2));
    }
    Ok(())
}

/// Records map writes / nested containers after a local transaction (C05), feeds twins (C15).
pub fn after_txn(w: &mut World, r: usize, effects: &[Effect], _emitted: usize, _before: Option<String>) -> Result<(), Violation> {
    if w.mon.c20 {
        crate::weak::record(w, r, effects);
    }
    if w.mon.c05 {
        let txn = w.reps[r].doc.transact();
        let mut integ = integrated_units(&yrs::verif::store_blocks(&txn));
        // a write the author holds only as a GC range (received, out of causal order, from a replica
        // where the parent was already deleted and collected) is anonymous there: no parent, no key,
        // no place in the key's chain. The author has not seen it as a write of this register, so a
        // new write does not causally overwrite it (the receiver-side rule of check_lww, mirrored)
        for b in yrs::verif::store_blocks(&txn).iter().filter(|b| b.kind == 1) {
            for k in b.id.clock..b.id.clock + b.len {
                integ.remove(&(b.id.client.get(), k));
            }
        }
        let mut nested: Vec<&Item> = vec![];
        // writes of this transaction per register, in call order
        let mut per_reg: Vec<((String, String), Vec<String>)> = vec![];
        // registers whose last operation in this transaction is a write (not a removal / clear)
        let mut ends_written: Vec<(String, String)> = vec![];
        for e in effects {
            match e {
                Effect::MapSet { c, key, .. } => {
                    if !ends_written.contains(&(c.clone(), key.clone())) {
                        ends_written.push((c.clone(), key.clone()));
                    }
                }
                Effect::MapRemove { c, key } => ends_written.retain(|x| !(x.0 == *c && x.1 == *key)),
                Effect::MapClear { c } => ends_written.retain(|x| x.0 != *c),
                _ => {}
            }
        }
        for e in effects {
            match e {
                Effect::MapSet { c, key, item } => {
                    let label = match item {
                        Item::Prim(l) => l.clone(),
                        Item::Nested(id, _) => format!("#{}", id),
                        Item::Doc(g) => format!("<D {}>", g),
                    };
                    nested.push(item);
                    let k = (c.clone(), key.clone());
                    match per_reg.iter_mut().find(|x| x.0 == k) {
                        Some(x) => x.1.push(label),
                        None => per_reg.push((k, vec![label])),
                    }
                }
                Effect::SeqInsert { items, .. } => nested.extend(items.iter()),
                Effect::TextEmbed { item, .. } => nested.push(item),
                _ => {}
            }
        }
        // the items this transaction created, from the author's store (parent and key are resolved
        // there), in clock order = call order
        let own = w.reps[r].cfg.id;
        let from = w.ext.clock_before;
        let created: Vec<yrs::verif::BlockInfo> = yrs::verif::store_blocks(&txn).into_iter().filter(|b| b.id.client.get() == own && b.id.clock + b.len > from).collect();
        // mechanism anchored by C05: a write makes a *new* entry right of the current one - also when it repeats the
        // value the key already shows (otherwise a concurrent removal that had seen only the old entry erases the write).
        // Checked where it is observable: the container is still reachable on the author after the transaction.
        for (c, key) in ends_written.iter() {
            let Some(bid) = branch_id_of(&w.reps[r], c) else { continue };
            let Some(chain) = yrs::verif::map_chain(&txn, &bid, key) else { continue };
            w.cnt.inc("c05_written_registers_with_entry_checked");
            let newest = chain.first();
            let ok = matches!(newest, Some(b) if b.id.client.get() == own && b.id.clock + b.len > from && !b.deleted);
            if !ok {
                let d = format!("r{}: after a transaction whose last operation on {}[{}] is a write, the newest entry of the key is {:?} - not an entry made by this transaction (clocks from {})", own, c, key, newest.map(|b| (b.id.client.get(), b.id.clock, b.deleted)), from);
                drop(txn);
                return v(w, "C05", "write-made-no-entry", d);
            }
        }
        for ((c, key), labels) in per_reg {
            let mut fresh: Vec<Uid> = vec![];
            for b in created.iter() {
                let pc = match &b.parent {
                    yrs::verif::ParentInfo::Root(n) => format!("'{}'", n),
                    yrs::verif::ParentInfo::Nested(id) => format!("<{}#{}>", id.client.get(), id.clock),
                    yrs::verif::ParentInfo::Inherit => String::new(),
                };
                if b.kind == 0 && pc == c && b.parent_sub.as_deref() == Some(key.as_str()) {
                    for k in b.id.clock.max(from)..b.id.clock + b.len {
                        fresh.push((own, k));
                    }
                }
            }
            if fresh.len() != labels.len() {
                w.cnt.inc("c05_writes_unmapped");
                continue;
            }
            for (label, u) in labels.into_iter().zip(fresh.into_iter()) {
                let mut ctx: HashSet<Uid> = w.ext.writes.iter().filter(|x| x.c == c && x.key == key && integ.contains(&x.uid)).map(|x| x.uid).collect();
                ctx.remove(&u);
                w.ext.writes.push(LwwWrite { c: c.clone(), key: key.clone(), label, uid: u, ctx });
                w.cnt.inc("c05_writes_recorded");
            }
        }
        for it in nested {
            if let Item::Nested(id, _) = it {
                // "<client#clock>" is the debug form of a nested BranchID
                if let Some(u) = parse_nested_id(id) {
                    w.ext.nested.insert(id.clone(), u);
                }
            }
        }
    }
    Ok(())
}

pub fn parse_nested_id(id: &str) -> Option<Uid> {
    let s = id.trim_start_matches('<').trim_end_matches('>');
    let (a, b) = s.split_once('#')?;
    Some((a.parse().ok()?, b.parse().ok()?))
}

fn branch_id_of(rep: &Replica, c: &str) -> Option<yrs::BranchID> {
    let txn = rep.doc.transact();
    for (h, _) in live_types(&rep.roots, &txn) {
        if format!("{:?}", h.id()) == c {
            return Some(h.id());
        }
    }
    None
}

/// C15 twin feeding: called for every payload applied to `r` and every local event of `r`.
pub fn twin_feed(w: &mut World, r: usize, bytes: &[u8], v2: bool, event: bool, local: bool) -> Result<(), Violation> {
    if !w.mon.c15 {
        return Ok(());
    }
    // event-following twins take every update event of r and nothing else; payload twins take the
    // payloads r is handed plus r's local transactions
    if w.ext.twins_follow_events != event && !(event && local) {
        return Ok(());
    }
    if w.ext.twins_follow_events && !event {
        return Ok(());
    }
    w.cnt.inc(if w.ext.twins_follow_events { "c15_twin_feeds_event_stream" } else { "c15_twin_feeds_same_payloads" });
    if let Err(e) = w.ext.twins[r].apply(bytes, v2) {
        return v(w, "C15", &format!("twin-{}", e.split(':').next().unwrap_or("")), format!("the twin of r{} (opposite gc setting) cannot apply what r{} applied: {}", w.reps[r].cfg.id, w.reps[r].cfg.id, e));
    }
    Ok(())
}

/// C02(d)/C06: what a relay payload must carry.
pub fn relay_payload(w: &mut World, from: usize, to: usize, form: u8, sv: &StateVector, bytes: &[u8]) -> Result<(), Violation> {
    if !(w.mon.c02 || w.mon.c06) {
        return Ok(());
    }
    let u = match if form % 2 == 1 { Update::decode_v2(bytes) } else { Update::decode_v1(bytes) } {
        Ok(u) => u,
        Err(_) => return Ok(()), // reported by apply()
    };
    let blocks = yrs::verif::update_blocks(&u);
    let carried = integrated_units(&blocks);
    let src = &w.reps[from];
    let txn = src.doc.transact();
    let integ = integrated_units(&yrs::verif::store_blocks(&txn));
    drop(txn);
    if form < 2 && w.mon.c02 {
        // full-state export must carry integrated *and* stashed content at or above the vector
        for u in src.model.handed.keys() {
            if u.1 >= sv.get(&yrs::ClientID::new(u.0)) && !carried.contains(u) {
                let d = format!("encode_state_as_update of r{} (has stash: {}) does not carry unit {:?} it was handed (requested from {:?})", src.cfg.id, src.doc.transact().has_missing_updates(), u, sv);
                return v(w, "C02", "export-drops-content", d);
            }
        }
        // ... and every deletion the replica was handed, applied or still waiting for its target in the
        // pending delete set (the delete set of a full-state export is not restricted by the vector)
        let ds = u.delete_set();
        let mut waiting = 0u64;
        for d in src.model.del.iter() {
            if !integ.contains(d) {
                waiting += 1;
            }
            if !ds.contains(&yrs::ID::new(yrs::ClientID::new(d.0), d.1)) {
                let d = format!("encode_state_as_update of r{} does not carry the deletion of unit {:?} which it was handed (unit integrated there: {}; has stash: {})", src.cfg.id, d, integ.contains(d), src.doc.transact().has_missing_updates());
                return v(w, "C02", "export-drops-deletion", d);
            }
        }
        w.cnt.add("c02_export_deletions_checked", src.model.del.len() as u64);
        w.cnt.add("c02_export_deletions_still_waiting_for_target", waiting);
        w.cnt.inc("c02_exports_checked");
    }
    if w.mon.c06 {
        for u in integ.iter() {
            if u.1 >= sv.get(&yrs::ClientID::new(u.0)) && !carried.contains(u) {
                let d = format!("{} of r{} towards r{} omits unit {:?} which the sender has integrated (requested from {:?}; sender has gap: {})", if form < 2 { "encode_state_as_update" } else { "encode_diff" }, src.cfg.id, w.reps[to].cfg.id, u, sv, has_skip(&yrs::verif::store_blocks(&src.doc.transact())));
                return v(w, "C06", "diff-omits-integrated", d);
            }
        }
        w.cnt.inc("c06_payloads_checked");
    }
    Ok(())
}

/// C06: after B applied what A encoded for it, B must contain everything A had integrated.
pub fn after_relay(w: &mut World, from: usize, to: usize, form: u8) -> Result<(), Violation> {
    if !w.mon.c06 {
        return Ok(());
    }
    // Population split: encode_state_as_update of a sender that itself holds a stash merges the
    // stash into the export; a still-blocked stashed block then makes the receiver stash every
    // later block of that client too (Yjs-inherited), including ones the sender had integrated.
    let pop = if form < 2 && w.reps[from].doc.transact().has_missing_updates() { ":full-state-of-sender-with-stash" } else { "" };
    if !pop.is_empty() {
        w.cnt.inc("c06_exchanges_full_state_of_sender_with_stash");
    }
    let (a, b) = (&w.reps[from], &w.reps[to]);
    let (ta, tb) = (a.doc.transact(), b.doc.transact());
    let ia = integrated_units(&yrs::verif::store_blocks(&ta));
    let ib = integrated_units(&yrs::verif::store_blocks(&tb));
    let (sa, sb) = (ta.state_vector(), tb.state_vector());
    let (da, db) = (ta.snapshot().delete_set, tb.snapshot().delete_set);
    drop(ta);
    drop(tb);
    w.cnt.inc("c06_exchanges");
    if let Some(u) = ia.iter().find(|u| !ib.contains(u)) {
        return v(w, "C06", &format!("sync-incomplete{}", pop), format!("after applying r{}'s diff r{} still lacks unit {:?} that r{} has integrated", a.cfg.id, b.cfg.id, u, a.cfg.id));
    }
    if !sv_ge(&sb, &sa) {
        return v(w, "C06", &format!("sv-not-dominating{}", pop), format!("after the exchange r{}'s vector {:?} does not dominate r{}'s {:?}", b.cfg.id, sb, a.cfg.id, sa));
    }
    if let Some(u) = idset_units(&da).iter().find(|u| !db.contains(&yrs::ID::new(yrs::ClientID::new(u.0), u.1))) {
        return v(w, "C06", &format!("deletion-not-transferred{}", pop), format!("after the exchange unit {:?} is deleted at r{} but not at r{}", u, a.cfg.id, b.cfg.id));
    }
    Ok(())
}

fn fresh(id: u64) -> Follower {
    Follower::new(id, false)
}

fn clone_of(w: &World, r: usize, id: u64) -> Result<Follower, String> {
    let f = fresh(id);
    let full = w.reps[r].doc.transact().encode_state_as_update_v1(&StateVector::default());
    f.apply(&full, false)?;
    Ok(f)
}

/// Step kinds beyond the core ones.
pub fn exec_ext(w: &mut World, step: &Step, touched: &mut Vec<usize>) -> Result<(), Violation> {
    let n = w.reps.len();
    match step {
        Step::Undo { r, redo } => {
            let r = (*r as usize) % n;
            if w.undo.len() <= r || w.undo[r].is_none() {
                return Ok(());
            }
            pre_txn(w, r);
            let mut mgr = w.undo[r].take().unwrap();
            let redo = *redo;
            let res = catch(std::panic::AssertUnwindSafe(|| if redo { mgr.redo_blocking() } else { mgr.undo_blocking() }));
            w.undo[r] = Some(mgr);
            match res {
                Err(p) => return v(w, w.mon.prop, &format!("panic:{}", p.split(' ').next().unwrap_or("")), format!("panic in {}: {}", if redo { "redo" } else { "undo" }, p)),
                Ok(done) => {
                    w.log.push(format!("r{} {} -> {}", w.reps[r].cfg.id, if redo { "redo" } else { "undo" }, done));
                    if done {
                        w.cnt.inc(if redo { "redo_effective" } else { "undo_effective" });
                    }
                }
            }
            w.collect(r, true)?;
            touched.push(r);
        }
        Step::Gc { r, ds } => {
            let r = (*r as usize) % n;
            let before = w.reps[r].dump();
            w.log.push(format!("force gc r{} ({})", w.reps[r].cfg.id, if *ds { "with delete set" } else { "all" }));
            pre_txn(w, r);
            let doc = w.reps[r].doc.clone();
            let with_ds = *ds;
            let res = catch(move || {
                let dset = doc.transact().snapshot().delete_set;
                let mut txn = doc.transact_mut();
                if with_ds {
                    txn.gc(Some(&dset));
                } else {
                    txn.gc(None);
                }
            });
            if let Err(p) = res {
                return v(w, w.mon.prop, &format!("panic:{}", p.split(' ').next().unwrap_or("")), format!("panic in forced gc: {}", p));
            }
            w.collect(r, true)?;
            w.cnt.inc("forced_gc");
            // snapshots of a document that was collected explicitly are void by the user's own choice
            w.ext.snaps.retain(|s| s.r != r);
            if w.mon.c15 {
                let after = w.reps[r].dump();
                if after != before {
                    return v(w, "C15", "forced-gc-visible", format!("forced gc changed the content of r{}:\n   before {}\n   after  {}", w.reps[r].cfg.id, before, after));
                }
                rebuild_check(w, r)?;
            }
            touched.push(r);
        }
        Step::Snap { r } => {
            if !w.mon.c13 {
                return Ok(());
            }
            let r = (*r as usize) % n;
            let rep = &w.reps[r];
            let txn = rep.doc.transact();
            if rep.cfg.gc {
                // a collecting document must refuse
                let snap = txn.snapshot();
                let mut e = EncoderV1::new();
                let res = txn.encode_state_from_snapshot(&snap, &mut e);
                drop(txn);
                w.cnt.inc("c13_gc_refusals_checked");
                if res.is_ok() {
                    return v(w, "C13", "gc-doc-does-not-refuse", format!("encode_state_from_snapshot on gc-enabled r{} returned Ok", w.reps[r].cfg.id));
                }
                return Ok(());
            }
            let blocks = yrs::verif::store_blocks(&txn);
            let gapfree = !has_skip(&blocks) && !txn.has_missing_updates();
            let snap = txn.snapshot();
            let dump = dump_doc(&rep.roots, &txn);
            drop(txn);
            // a snapshot survives its own encoding
            let s1 = Snapshot::decode_v1(&snap.encode_v1());
            let s2 = Snapshot::decode_v2(&snap.encode_v2());
            if s1.as_ref().ok() != Some(&snap) || s2.as_ref().ok() != Some(&snap) {
                return v(w, "C13", "snapshot-roundtrip", format!("snapshot of r{} does not survive encode/decode (v1 ok: {}, v2 ok: {})", w.reps[r].cfg.id, s1.as_ref().ok() == Some(&snap), s2.as_ref().ok() == Some(&snap)));
            }
            w.log.push(format!("snapshot r{} (gap-free: {})", w.reps[r].cfg.id, gapfree));
            w.cnt.inc(if gapfree { "c13_snapshots" } else { "c13_snapshots_over_gap" });
            let step_no = w.step_no;
            w.ext.snaps.push(SnapRec { r, snap, dump, gapfree, step: step_no });
        }
        Step::Restore { sel } => {
            if !w.mon.c13 || w.ext.snaps.is_empty() {
                return Ok(());
            }
            let k = (*sel as usize) % w.ext.snaps.len();
            restore_check(w, k)?;
        }
        Step::Sticky { r, ty, pos, after, edge } => {
            if !w.mon.c14 {
                return Ok(());
            }
            let r = (*r as usize) % n;
            create_sticky(w, r, *ty, *pos, *after, *edge)?;
        }
        Step::Probe { a, b, x, y } => {
            let a = (*a as usize) % n;
            let b = (*b as usize) % n;
            if w.mon.c06 {
                probe_sync(w, a, b, *x, touched)?;
            }
            if w.mon.c08 {
                probe_algebra(w, a, *x, *y)?;
            }
        }
        _ => {}
    }
    Ok(())
}

/// C15: a document rebuilt from a replica's full state equals it.
fn rebuild_check(w: &mut World, r: usize) -> Result<(), Violation> {
    if w.reps[r].doc.transact().has_missing_updates() {
        // the export carries the stash too; the rebuilt document may legitimately stash more of a
        // client's blocks behind the blocked one than the source did (see C02's lower bound)
        w.cnt.inc("c15_rebuilds_skipped_source_has_stash");
        return Ok(());
    }
    let v2 = w.step_no % 2 == 0;
    let txn = w.reps[r].doc.transact();
    let full = if v2 { txn.encode_state_as_update_v2(&StateVector::default()) } else { txn.encode_state_as_update_v1(&StateVector::default()) };
    drop(txn);
    let f = Follower::new(600_000, w.step_no % 3 == 0);
    if let Err(e) = f.apply(&full, v2) {
        return v(w, "C15", &format!("rebuild-{}", e.split(':').next().unwrap_or("")), format!("a document rebuilt from r{}'s full state: {}", w.reps[r].cfg.id, e));
    }
    let (d, e) = (w.reps[r].dump(), f.dump());
    w.cnt.inc("c15_rebuilds");
    if d != e {
        return v(w, "C15", "rebuild-differs", format!("a document rebuilt from the full state of r{} (gc {}) differs:\n   {}\n   {}", w.reps[r].cfg.id, w.reps[r].cfg.gc, d, e));
    }
    Ok(())
}

/// C13: restore one recorded snapshot (v1 and v2) and compare with the dump recorded then.
fn restore_check(w: &mut World, k: usize) -> Result<(), Violation> {
    let (r, gapfree, step) = (w.ext.snaps[k].r, w.ext.snaps[k].gapfree, w.ext.snaps[k].step);
    let suffix = if gapfree { "" } else { ":source-had-gap" };
    for v2 in [false, true] {
        let doc = w.reps[r].doc.clone();
        let snap = w.ext.snaps[k].snap.clone();
        let res = catch(move || {
            let txn = doc.transact();
            if v2 {
                let mut e = EncoderV2::new();
                txn.encode_state_from_snapshot(&snap, &mut e).map(|_| e.to_vec())
            } else {
                let mut e = EncoderV1::new();
                txn.encode_state_from_snapshot(&snap, &mut e).map(|_| e.to_vec())
            }
        });
        let bytes = match res {
            Err(p) => return v(w, "C13", &format!("restore-panic{}", suffix), format!("encode_state_from_snapshot panicked: {}", p)),
            Ok(Err(e)) => return v(w, "C13", &format!("restore-encode-error{}", suffix), format!("encode_state_from_snapshot of skip_gc r{} failed: {}", w.reps[r].cfg.id, e)),
            Ok(Ok(b)) => b,
        };
        let f = fresh(500_000 + v2 as u64);
        if let Err(e) = f.apply(&bytes, v2) {
            return v(w, "C13", &format!("restore-{}{}", e.split(':').next().unwrap_or(""), suffix), format!("state encoded from the snapshot taken at step {} (v{}) cannot be applied to an empty document: {}", step, if v2 { 2 } else { 1 }, e));
        }
        let got = f.dump();
        w.cnt.inc(if gapfree { "c13_restores" } else { "c13_restores_over_gap" });
        if got != w.ext.snaps[k].dump {
            let d = format!("snapshot of r{} taken at step {} restored (v{}) at step {} differs:\n   then {}\n   now  {}", w.reps[r].cfg.id, step, if v2 { 2 } else { 1 }, w.step_no, w.ext.snaps[k].dump, got);
            return v(w, "C13", &format!("restore-differs{}", suffix), d);
        }
        if f.doc.transact().has_missing_updates() && gapfree {
            return v(w, "C13", "restore-pending", format!("restored document reports missing updates (snapshot of step {})", step));
        }
    }
    Ok(())
}

/// Visible elements of a sequence with unit ids and widths in the replica's offset unit, plus the
/// order of *all* units (tombstones included) from hook H2.
pub struct Layout {
    pub labels: Vec<String>,
    pub uids: Vec<Uid>,
    pub widths: Vec<u32>,
    pub all: Vec<Uid>,
    /// unit -> the unit of its redone copy (undo manager), for units of this branch
    pub redone: HashMap<Uid, Uid>,
}

pub fn layout(rep: &Replica, h: &Handle) -> Option<Layout> {
    use yrs::{Array, XmlFragment};
    let txn = rep.doc.transact();
    let (labels, clocks, widths): (Vec<String>, Vec<u32>, Vec<u32>) = match h {
        Handle::Text(_) | Handle::XText(_) => {
            let t = h.as_text().unwrap();
            let (l, c) = text_labels(&t, &txn);
            let units = text_units(&t, &txn);
            let wd = units.iter().map(|u| u.len(rep.kind)).collect();
            (l, c, wd)
        }
        Handle::Array(a) => {
            let l: Vec<String> = a.iter(&txn).map(|o| label_of_out(&o)).collect();
            let k = l.len();
            (l, vec![1; k], vec![1; k])
        }
        Handle::XFrag(f) => {
            let l: Vec<String> = f.children(&txn).map(|o| format!("#{:?}", o.id())).collect();
            let k = l.len();
            (l, vec![1; k], vec![1; k])
        }
        Handle::XElem(f) => {
            let l: Vec<String> = f.children(&txn).map(|o| format!("#{:?}", o.id())).collect();
            let k = l.len();
            (l, vec![1; k], vec![1; k])
        }
        Handle::Map(_) => return None,
    };
    let items = yrs::verif::branch_items(&txn, &h.id())?;
    let mut vis = vec![];
    let mut all = vec![];
    let mut redone: HashMap<Uid, Uid> = HashMap::new();
    for it in items.iter() {
        for k in 0..it.len {
            let u = (it.id.client.get(), it.id.clock + k);
            if let Some(r) = &it.redone {
                redone.insert(u, (r.client.get(), r.clock + k));
            }
            all.push(u);
            if !it.deleted && it.countable {
                vis.push(u);
            }
        }
    }
    let total: u32 = clocks.iter().sum();
    if total as usize != vis.len() {
        return None;
    }
    let mut uids = vec![];
    let mut p = 0usize;
    for c in &clocks {
        uids.push(vis[p]);
        p += *c as usize;
    }
    Some(Layout { labels, uids, widths, all, redone })
}

fn create_sticky(w: &mut World, r: usize, ty: u32, pos: u32, after: bool, edge: u8) -> Result<(), Violation> {
    let rep = &w.reps[r];
    let txn = rep.doc.transact();
    let types: Vec<Handle> = live_types(&rep.roots, &txn).into_iter().map(|x| x.0).filter(|h| h.kind() != "map").collect();
    drop(txn);
    if types.is_empty() {
        return Ok(());
    }
    let h = types[(ty as usize) % types.len()].clone();
    let Some(lay) = layout(rep, &h) else { return Ok(()) };
    let n = lay.labels.len();
    let assoc = if after { Assoc::After } else { Assoc::Before };
    let c = format!("{:?}", h.id());
    let txn = rep.doc.transact();
    // position classes: start, end, inside
    let p = match edge % 6 {
        0 => 0,
        1 => n,
        _ => (pos as usize) % (n + 1),
    };
    let off: u32 = lay.widths[..p].iter().sum();
    let (si, anchor, label, at_end) = if n == 0 {
        // start/end of an empty collection
        let si = match &h {
            Handle::Text(t) => StickyIndex::from_type(&txn, t, assoc),
            Handle::XText(t) => StickyIndex::from_type(&txn, t, assoc),
            Handle::Array(t) => StickyIndex::from_type(&txn, t, assoc),
            Handle::XFrag(t) => StickyIndex::from_type(&txn, t, assoc),
            Handle::XElem(t) => StickyIndex::from_type(&txn, t, assoc),
            Handle::Map(_) => unreachable!(),
        };
        // `Assoc::After` on the type = its end, `Before` = its start
        (Some(si), None, String::new(), after)
    } else {
        let si = match &h {
            Handle::Text(t) => t.sticky_index(&txn, off, assoc),
            Handle::XText(t) => t.sticky_index(&txn, off, assoc),
            Handle::Array(t) => t.sticky_index(&txn, off, assoc),
            Handle::XFrag(t) => t.sticky_index(&txn, off, assoc),
            Handle::XElem(t) => t.sticky_index(&txn, off, assoc),
            Handle::Map(_) => unreachable!(),
        };
        if after && p == n {
            // nothing to anchor on: a refused creation is not a violation (DESIGN C14 F); the end of a non-empty
            // collection is reachable as an index scoped to the type itself
            w.cnt.inc("c14_refused_at_end");
            if si.is_some() {
                w.cnt.inc("c14_created_at_end");
            }
            let si = match &h {
                Handle::Text(t) => StickyIndex::from_type(&txn, t, assoc),
                Handle::XText(t) => StickyIndex::from_type(&txn, t, assoc),
                Handle::Array(t) => StickyIndex::from_type(&txn, t, assoc),
                Handle::XFrag(t) => StickyIndex::from_type(&txn, t, assoc),
                Handle::XElem(t) => StickyIndex::from_type(&txn, t, assoc),
                Handle::Map(_) => unreachable!(),
            };
            drop(txn);
            let v1 = si.encode_v1();
            let json = serde_json::to_string(&si).unwrap_or_default();
            w.log.push(format!("sticky r{} {} end of the type {:?} -> {:?}", w.reps[r].cfg.id, c, assoc, si));
            w.cnt.inc("c14_indexes_created");
            w.cnt.inc("c14_type_end_indexes_on_non_empty_collections");
            w.ext.stickies.push(StickyRec { c, bid: h.id(), v1, json, after, anchor: None, label: String::new(), at_end: true, created_on: r });
            return Ok(());
        }
        if !after && p == 0 {
            (si, None, String::new(), false)
        } else {
            let q = if after { p } else { p - 1 };
            (si, Some(lay.uids[q]), lay.labels[q].clone(), false)
        }
    };
    drop(txn);
    let Some(si) = si else {
        let d = format!("sticky_index({}, {:?}) on {} of r{} ({:?}, {} elements) returned None", off, assoc, c, w.reps[r].cfg.id, w.reps[r].kind, n);
        return v(w, "C14", "creation-refused", d);
    };
    let v1 = si.encode_v1();
    let json = serde_json::to_string(&si).unwrap_or_default();
    w.log.push(format!("sticky r{} {} index {} {:?} anchor {} {:?} -> {:?}", w.reps[r].cfg.id, c, off, assoc, label, anchor, si));
    w.cnt.inc("c14_indexes_created");
    w.ext.stickies.push(StickyRec { c, bid: h.id(), v1, json, after, anchor, label, at_end, created_on: r });
    Ok(())
}

fn check_stickies(w: &mut World, r: usize) -> Result<(), Violation> {
    if w.ext.stickies.is_empty() {
        return Ok(());
    }
    let rep = &w.reps[r];
    let txn = rep.doc.transact();
    let live: HashMap<String, Handle> = live_types(&rep.roots, &txn).into_iter().map(|(h, _)| (format!("{:?}", h.id()), h)).collect();
    let integ = integrated_units(&yrs::verif::store_blocks(&txn));
    drop(txn);
    let mut lays: HashMap<String, Option<Layout>> = HashMap::new();
    let mut checks = 0;
    let mut w_redone_checks = 0u64;
    let mut bad: Option<(String, String)> = None;
    // unit of a type item -> unit of its re-created copy (undo manager)
    let type_redone: HashMap<Uid, Uid> = {
        let txn = rep.doc.transact();
        yrs::verif::store_blocks(&txn).iter().filter(|b| b.kind == 0 && b.len == 1).filter_map(|b| b.redone.map(|r| ((b.id.client.get(), b.id.clock), (r.client.get(), r.clock)))).collect()
    };
    let mut restored_checks = 0u64;
    let mut wrong_branch: Option<String> = None;
    for s in w.ext.stickies.iter() {
        if wrong_branch.is_some() {
            break;
        }
        let (h, ckey) = match live.get(&s.c) {
            Some(h) => (h, s.c.clone()),
            None => {
                // an index scoped to a nested collection (its start / end) whose collection was deleted and brought back
                // by undo: the collection now lives on as a re-created copy and the index has to follow it
                if s.anchor.is_some() {
                    continue;
                }
                let yrs::BranchID::Nested(id) = &s.bid else { continue };
                let mut cur: Uid = (id.client.get(), id.clock);
                let mut hops = 0;
                while let Some(n) = type_redone.get(&cur) {
                    cur = *n;
                    hops += 1;
                    if hops > 32 {
                        break;
                    }
                }
                if hops == 0 || hops > 32 {
                    continue;
                }
                let key = format!("{:?}", yrs::BranchID::Nested(yrs::ID::new(yrs::ClientID::new(cur.0), cur.1)));
                match live.get(&key) {
                    Some(h) => {
                        restored_checks += 1;
                        (h, key)
                    }
                    None => continue,
                }
            }
        };
        // serialisation: binary and JSON forms must give back the same index
        let si = match StickyIndex::decode_v1(&s.v1) {
            Ok(x) => x,
            Err(e) => {
                bad = Some(("serialization".into(), format!("sticky index does not decode: {}", e)));
                break;
            }
        };
        let sj: Result<StickyIndex, _> = serde_json::from_str(&s.json);
        match sj {
            Ok(j) if j == si => {}
            other => {
                bad = Some(("serialization".into(), format!("JSON form {} gives {:?}, binary form gives {:?}", s.json, other.ok(), si)));
                break;
            }
        }
        if si.assoc != (if s.after { Assoc::After } else { Assoc::Before }) {
            bad = Some(("serialization".into(), "association lost in serialisation".into()));
            break;
        }
        let lay = lays.entry(ckey.clone()).or_insert_with(|| layout(rep, h));
        let Some(lay) = lay else { continue };
        let total: u32 = lay.widths.iter().sum();
        let want: u32 = match s.anchor {
            None => {
                if s.at_end {
                    total
                } else {
                    0
                }
            }
            Some(a) => {
                if !integ.contains(&a) {
                    continue; // this replica does not know the anchoring element yet
                }
                match lay.uids.iter().position(|u| *u == a) {
                    Some(q) => lay.widths[..q].iter().sum::<u32>() + if s.after { 0 } else { lay.widths[q] },
                    None => {
                        // anchor deleted: after all visible elements that precede it
                        let Some(ai) = lay.all.iter().position(|u| *u == a) else { continue };
                        let visible: HashSet<&Uid> = lay.uids.iter().collect();
                        match lay.all[ai..].iter().find(|u| visible.contains(u)) {
                            Some(next) => {
                                let q = lay.uids.iter().position(|u| u == next).unwrap();
                                lay.widths[..q].iter().sum::<u32>()
                            }
                            None => total,
                        }
                    }
                }
            }
        };
        // an anchor that was deleted and brought back by undo: the index may follow the restored copy (`follow_redone`);
        // normally that is the very gap where the element used to be, both readings are accepted
        let want_redone: Option<u32> = s.anchor.and_then(|a| {
            let mut cur = a;
            let mut hops = 0;
            while let Some(n) = lay.redone.get(&cur) {
                cur = *n;
                hops += 1;
                if hops > 32 {
                    return None;
                }
            }
            if hops == 0 {
                return None;
            }
            match lay.uids.iter().position(|u| *u == cur) {
                // the copy holds the content of the element it restores: a link that leads to another element is not followed
                // by this expectation (the links themselves come from the library, through hook H2)
                Some(q) if lay.labels[q] != s.label && !s.label.contains('#') => None,
                Some(q) => Some(lay.widths[..q].iter().sum::<u32>() + if s.after { 0 } else { lay.widths[q] }),
                None => {
                    let ai = lay.all.iter().position(|u| *u == cur)?;
                    let visible: HashSet<&Uid> = lay.uids.iter().collect();
                    Some(match lay.all[ai..].iter().find(|u| visible.contains(u)) {
                        Some(next) => {
                            let q = lay.uids.iter().position(|u| u == next).unwrap();
                            lay.widths[..q].iter().sum::<u32>()
                        }
                        None => total,
                    })
                }
            }
        });
        let txn = rep.doc.transact();
        let got = catch(|| si.get_offset(&txn).map(|o| (o.index, o.branch.id())));
        drop(txn);
        // an index scoped to the type names that type (or the copy undo re-created it as) - element anchors on
        // byte-offset documents are a known finding (D9) and not looked at here
        let got = got.map(|o| {
            o.map(|(i, b)| {
                if s.anchor.is_none() && b != h.id() {
                    wrong_branch = Some(format!("sticky index {:?} scoped to {} resolves on r{} into {:?}, not into the live collection {:?}", si, s.c, rep.cfg.id, b, h.id()));
                }
                i
            })
        });
        checks += 1;
        if want_redone.is_some() {
            w_redone_checks += 1;
        }
        // population: was a byte-offset replica involved (creating or resolving) and did the history
        // produce non-ASCII text at all (then tombstones may hold multi-byte characters too)
        let bytes_involved = rep.kind == yrs::OffsetKind::Bytes || w.reps[s.created_on].kind == yrs::OffsetKind::Bytes;
        let ascii_only = w.ascii && w.nchars <= 62;
        let is_text = matches!(h, Handle::Text(_) | Handle::XText(_));
        let cls = format!("{}{}", if bytes_involved { "bytes" } else { "utf16" }, if ascii_only || !is_text { "" } else { "-nonascii-text" });
        match got {
            Err(p) => {
                bad = Some((format!("panic:{}", p.split(' ').next().unwrap_or("")), format!("get_offset panicked: {}", p)));
                break;
            }
            Ok(None) => {
                bad = Some((format!("unresolved:{}", cls), format!("sticky index {:?} (anchor {} {:?}, created on r{}) resolves to None on r{} in {} although the anchor is integrated; expected {}", si, s.label, s.anchor, w.reps[s.created_on].cfg.id, rep.cfg.id, s.c, want)));
                break;
            }
            Ok(Some(g)) => {
                if g != want && Some(g) != want_redone {
                    bad = Some((format!("wrong-offset:{}", cls), format!("sticky index {:?} (anchor {} {:?}, created on r{}) resolves to {} on r{} ({:?}) in {}, expected {} ; visible: {:?}", si, s.label, s.anchor, w.reps[s.created_on].cfg.id, g, rep.cfg.id, rep.kind, if ckey == s.c { s.c.clone() } else { format!("{} (restored by undo as {})", s.c, ckey) }, want, lay.labels)));
                    break;
                }
            }
        }
    }
    if bad.is_none() {
        if let Some(d) = wrong_branch {
            bad = Some(("wrong-branch".into(), d));
        }
    }
    w.cnt.add("c14_resolutions_checked", checks);
    w.cnt.add("c14_resolutions_of_undone_anchors", w_redone_checks);
    w.cnt.add("c14_resolutions_in_collections_restored_by_undo", restored_checks);
    if let Some((k, d)) = bad {
        return v(w, "C14", &k, d);
    }
    Ok(())
}

/// C06: bidirectional exchange to a fixpoint, self-application, re-application of known updates.
fn probe_sync(w: &mut World, a: usize, b: usize, x: u32, touched: &mut Vec<usize>) -> Result<(), Violation> {
    // X.encode_diff(X.sv) applied to X changes nothing and emits nothing
    {
        let rep = &w.reps[a];
        let pre = finger(&rep.doc, &rep.roots);
        let sv = rep.doc.transact().state_vector();
        let v2 = x % 2 == 0;
        let bytes = {
            let txn = rep.doc.transact();
            match x % 4 {
                0 => txn.encode_diff_v2(&sv),
                1 => txn.encode_diff_v1(&sv),
                2 => txn.encode_state_as_update_v2(&sv),
                _ => txn.encode_state_as_update_v1(&sv),
            }
        };
        let before_msgs = w.msgs.len();
        w.log.push(format!("self-apply r{} form {}", w.reps[a].cfg.id, x % 4));
        w.apply(a, &bytes, v2, "self-diff")?;
        let post = finger(&w.reps[a].doc, &w.reps[a].roots);
        w.cnt.inc("c06_self_applications");
        if pre != post || w.msgs.len() != before_msgs {
            return v(w, "C06", "self-diff-changes", format!("applying r{}'s own diff against its own state vector changed it (emitted {} updates)", w.reps[a].cfg.id, w.msgs.len() - before_msgs));
        }
    }
    if a == b {
        return Ok(());
    }
    // ping-pong until neither side changes
    let mut rounds = 0;
    loop {
        let fa = finger(&w.reps[a].doc, &w.reps[a].roots);
        let fb = finger(&w.reps[b].doc, &w.reps[b].roots);
        for (from, to) in [(a, b), (b, a)] {
            let form = ((x / 4) as u8 + rounds as u8 + from as u8) % 4;
            let sv = w.reps[to].doc.transact().state_vector();
            let bytes = {
                let txn = w.reps[from].doc.transact();
                match form {
                    0 => txn.encode_state_as_update_v1(&sv),
                    1 => txn.encode_state_as_update_v2(&sv),
                    2 => txn.encode_diff_v1(&sv),
                    _ => txn.encode_diff_v2(&sv),
                }
            };
            w.log.push(format!("exchange r{} -> r{} form {}", w.reps[from].cfg.id, w.reps[to].cfg.id, form));
            relay_payload(w, from, to, form, &sv, &bytes)?;
            w.apply(to, &bytes, form % 2 == 1, "exchange")?;
            after_relay(w, from, to, form)?;
        }
        rounds += 1;
        let ga = finger(&w.reps[a].doc, &w.reps[a].roots);
        let gb = finger(&w.reps[b].doc, &w.reps[b].roots);
        if ga == fa && gb == fb {
            break;
        }
        if rounds > 8 {
            return v(w, "C06", "exchange-no-fixpoint", format!("r{} and r{} keep changing after 8 rounds of bidirectional exchange", w.reps[a].cfg.id, w.reps[b].cfg.id));
        }
    }
    w.cnt.max("max_c06_rounds", rounds as u64);
    w.nonfifo = true;
    let (da, db) = (w.reps[a].dump(), w.reps[b].dump());
    let (sa, sb) = (w.reps[a].doc.transact().state_vector(), w.reps[b].doc.transact().state_vector());
    w.cnt.inc("c06_fixpoints");
    let pend = w.reps[a].doc.transact().has_missing_updates() || w.reps[b].doc.transact().has_missing_updates();
    if pend {
        w.cnt.inc("c06_fixpoints_with_stash");
    }
    if da != db {
        return v(w, "C06", "exchange-not-equal", format!("after bidirectional exchange to a fixpoint r{} and r{} differ (stash present: {}):\n   {}\n   {}", w.reps[a].cfg.id, w.reps[b].cfg.id, pend, da, db));
    }
    if !sv_eq(&sa, &sb) && !pend {
        return v(w, "C06", "exchange-sv-differ", format!("after bidirectional exchange state vectors differ: {:?} vs {:?}", sa, sb));
    }
    touched.push(a);
    touched.push(b);
    Ok(())
}

fn apply_all(f: &Follower, msgs: &[&Vec<u8>], v2: bool) -> Result<(), String> {
    for m in msgs {
        f.apply(m, v2)?;
    }
    Ok(())
}

fn units_visible(f: &Follower) -> (String, StateVector, bool) {
    let txn = f.doc.transact();
    (dump_doc(&f.roots, &txn), txn.state_vector(), txn.has_missing_updates())
}

/// C08: merged vs sequential, diff vs apply, vector-from-update, v1 vs v2.
fn probe_algebra(w: &mut World, a: usize, x: u32, y: u32) -> Result<(), Violation> {
    if w.msgs.len() < 2 {
        return Ok(());
    }
    let mut rng = fastrand::Rng::with_seed((x as u64) << 32 | y as u64);
    let v2 = rng.bool();
    // a random multiset of the history's updates (duplicates, out of order, overlapping re-broadcasts)
    let k = rng.usize(2..=6.min(w.msgs.len() + 1));
    let mut set: Vec<usize> = (0..k).map(|_| rng.usize(0..w.msgs.len())).collect();
    if rng.u8(0..4) == 0 {
        set = (0..w.msgs.len()).collect();
        rng.shuffle(&mut set);
    }
    let inputs: Vec<Vec<u8>> = set.iter().map(|&i| if v2 { w.msgs[i].v2.clone() } else { w.msgs[i].v1.clone() }).collect();
    let merge = |xs: Vec<Vec<u8>>| catch(|| if v2 { yrs::merge_updates_v2(xs) } else { yrs::merge_updates_v1(xs) });
    w.log.push(format!("algebra probe merge_v{} {:?}", if v2 { 2 } else { 1 }, set));
    let merged = match merge(inputs.clone()) {
        Err(p) => return v(w, "C08", &format!("panic:{}", p.split(' ').next().unwrap_or("")), format!("merge_updates panicked: {}", p)),
        Ok(Err(e)) => return v(w, "C08", "merge-error", format!("merge_updates failed on updates that decode: {}", e)),
        Ok(Ok(m)) => m,
    };
    // pattern statistics
    let mut gcforms = false;
    for i in &set {
        if let Ok(u) = Update::decode_v1(&w.msgs[*i].v1) {
            if yrs::verif::update_blocks(&u).iter().any(|b| b.kind == 1 || b.content == 1) {
                gcforms = true;
            }
        }
    }
    w.cnt.inc("c08_merges");
    if gcforms {
        w.cnt.inc("c08_merges_with_gc_forms");
    }
    // other order + nesting must have the same effect
    let mut alt_in = inputs.clone();
    rng.shuffle(&mut alt_in);
    let alt = if alt_in.len() > 2 {
        let cut = rng.usize(1..alt_in.len());
        let left = merge(alt_in[..cut].to_vec());
        match left {
            Ok(Ok(l)) => {
                let mut rest = vec![l];
                rest.extend(alt_in[cut..].iter().cloned());
                merge(rest)
            }
            other => other,
        }
    } else {
        merge(alt_in)
    };
    let alt = match alt {
        Err(p) => return v(w, "C08", &format!("panic:{}", p.split(' ').next().unwrap_or("")), format!("nested merge_updates panicked: {}", p)),
        Ok(Err(e)) => return v(w, "C08", "merge-error", format!("nested merge_updates failed: {}", e)),
        Ok(Ok(m)) => m,
    };
    let all: Vec<&Vec<u8>> = w.msgs.iter().map(|m| &m.v1).collect();
    // targets: an empty document and a document with prior state (clone of replica a)
    for with_state in [false, true] {
        let mk = |id: u64| -> Result<Follower, String> { if with_state { clone_of(w, a, id) } else { Ok(fresh(id)) } };
        let (fm, fs, fa) = match (mk(400_001), mk(400_002), mk(400_003)) {
            (Ok(x), Ok(y), Ok(z)) => (x, y, z),
            _ => return Ok(()),
        };
        if let Err(e) = fm.apply(&merged, v2) {
            return v(w, "C08", &format!("merged-{}", e.split(':').next().unwrap_or("")), format!("applying the merged update: {}", e));
        }
        if let Err(e) = fa.apply(&alt, v2) {
            return v(w, "C08", &format!("merged-{}", e.split(':').next().unwrap_or("")), format!("applying the re-ordered/nested merged update: {}", e));
        }
        if let Err(e) = apply_all(&fs, &inputs.iter().collect::<Vec<_>>(), v2) {
            return v(w, "C08", &format!("sequential-{}", e.split(':').next().unwrap_or("")), format!("applying the updates one by one: {}", e));
        }
        let (dm, sm, pm) = units_visible(&fm);
        let (ds, ss, ps) = units_visible(&fs);
        let (da, sa, pa) = units_visible(&fa);
        w.cnt.inc("c08_comparisons");
        if !pm && !ps && !gcforms {
            w.cnt.inc("c08_immediate_equalities");
            if dm != ds || !sv_eq(&sm, &ss) {
                return v(w, "C08", "merge-vs-sequential", format!("merge_updates_v{}({:?}) applied to {} differs from applying them one by one:\n   merged     {} {:?}\n   sequential {} {:?}", if v2 { 2 } else { 1 }, set, if with_state { "a document with prior state" } else { "an empty document" }, dm, sm, ds, ss));
            }
        }
        if !pm && !pa && !gcforms && (dm != da || !sv_eq(&sm, &sa)) {
            return v(w, "C08", "merge-order-dependent", format!("merging {:?} in another order / nesting gives another effect:\n   {} {:?}\n   {} {:?}", set, dm, sm, da, sa));
        }
        // complete all three with the whole (causally closed) history: now they must be equal
        for f in [&fm, &fs, &fa] {
            if let Err(e) = apply_all(f, &all, false) {
                return v(w, "C08", &format!("completion-{}", e.split(':').next().unwrap_or("")), format!("completing with the rest of the history: {}", e));
            }
        }
        let (dm, sm, pm) = units_visible(&fm);
        let (ds, ss, ps) = units_visible(&fs);
        let (da, _sa, pa) = units_visible(&fa);
        if pm || ps || pa {
            return v(w, "C08", "pending-after-completion", format!("after completing with every update of the history something is still pending (merged {}, sequential {}, nested {})", pm, ps, pa));
        }
        if dm != ds || dm != da || !sv_eq(&sm, &ss) {
            return v(w, "C08", "merge-vs-sequential-final", format!("after completing both with the rest of the history, merged-then-completed differs from sequential-then-completed (set {:?}, v{}):\n   merged     {}\n   sequential {}\n   nested     {}", set, if v2 { 2 } else { 1 }, dm, ds, da));
        }
    }
    // diff_updates(u, sv) on a document whose vector is sv == apply(u); u = merge of the whole history
    {
        let whole: Vec<Vec<u8>> = w.msgs.iter().map(|m| if v2 { m.v2.clone() } else { m.v1.clone() }).collect();
        let u = match merge(whole) {
            Ok(Ok(m)) => m,
            Err(p) => return v(w, "C08", &format!("panic:{}", p.split(' ').next().unwrap_or("")), format!("merge of whole history panicked: {}", p)),
            Ok(Err(e)) => return v(w, "C08", "merge-error", format!("merge of whole history failed: {}", e)),
        };
        let (fx, fy) = match (clone_of(w, a, 400_011), clone_of(w, a, 400_012)) {
            (Ok(x), Ok(y)) => (x, y),
            _ => return Ok(()),
        };
        let sv = fx.doc.transact().state_vector();
        let svb = if v2 { sv.encode_v2() } else { sv.encode_v1() };
        let d = catch(|| if v2 { yrs::diff_updates_v2(&u, &svb) } else { yrs::diff_updates_v1(&u, &svb) });
        let d = match d {
            Err(p) => return v(w, "C08", &format!("panic:{}", p.split(' ').next().unwrap_or("")), format!("diff_updates panicked: {}", p)),
            Ok(Err(e)) => return v(w, "C08", "diff-error", format!("diff_updates failed: {}", e)),
            Ok(Ok(d)) => d,
        };
        if let Err(e) = fx.apply(&d, v2) {
            return v(w, "C08", &format!("diff-{}", e.split(':').next().unwrap_or("")), format!("applying diff_updates output: {}", e));
        }
        if let Err(e) = fy.apply(&u, v2) {
            return v(w, "C08", &format!("diff-{}", e.split(':').next().unwrap_or("")), format!("applying the undiffed update: {}", e));
        }
        let (dx, sx, px) = units_visible(&fx);
        let (dy, sy, py) = units_visible(&fy);
        w.cnt.inc("c08_diffs");
        if dx != dy || !sv_eq(&sx, &sy) || px != py {
            return v(w, "C08", "diff-vs-apply", format!("applying diff_updates_v{}(u, sv) to a document with vector sv = {:?} differs from applying u:\n   diffed {} {:?} pending {}\n   whole  {} {:?} pending {}", if v2 { 2 } else { 1 }, sv, dx, sx, px, dy, sy, py));
        }
        // document-free oracle for arbitrary cuts (also strictly inside blocks and inside GC ranges, which the state vector of
        // a real peer seldom hits): diff_updates(u, sv) must be exactly the restriction of u to the clocks >= sv, unit by unit
        // with the same kind, and must carry u's delete set
        if let Ok(uu) = if v2 { Update::decode_v2(&u) } else { Update::decode_v1(&u) } {
            let ub = yrs::verif::update_blocks(&uu);
            let mut kinds: HashMap<(u64, u32), u8> = HashMap::new();
            let mut ends: std::collections::BTreeMap<u64, (u32, u32)> = Default::default();
            // clocks that lie inside a surrogate pair of a string block: no vector of a peer editing on character boundaries
            // falls there, and a string cannot be cut there without replacing the halves
            let mut inside_pair: HashSet<(u64, u32)> = HashSet::new();
            for b in ub.iter().filter(|b| b.kind != 2) {
                if b.kind == 0 && b.content == 4 {
                    let txt = b.text.trim_matches('\'');
                    let mut off = 0u32;
                    for ch in txt.chars() {
                        if ch.len_utf16() == 2 {
                            inside_pair.insert((b.id.client.get(), b.id.clock + off + 1));
                        }
                        off += ch.len_utf16() as u32;
                    }
                }
                for k in b.id.clock..b.id.clock + b.len {
                    kinds.insert((b.id.client.get(), k), b.kind);
                }
                let e = ends.entry(b.id.client.get()).or_insert((b.id.clock, b.id.clock + b.len));
                e.0 = e.0.min(b.id.clock);
                e.1 = e.1.max(b.id.clock + b.len);
            }
            for _ in 0..2 {
                let mut cut = StateVector::default();
                for (c, (lo, hi)) in ends.iter() {
                    let mut at = match rng.u8(0..4) {
                        0 => 0,
                        1 => *hi,
                        _ => rng.u32(*lo..=*hi),
                    };
                    if inside_pair.contains(&(*c, at)) {
                        at += 1;
                    }
                    if at > 0 {
                        cut.set_max(yrs::block::ClientID::new(*c), at);
                    }
                }
                let cb = if v2 { cut.encode_v2() } else { cut.encode_v1() };
                let d = match catch(|| if v2 { yrs::diff_updates_v2(&u, &cb) } else { yrs::diff_updates_v1(&u, &cb) }) {
                    Err(p) => return v(w, "C08", &format!("panic:{}", p.split(' ').next().unwrap_or("")), format!("diff_updates panicked on cut {:?}: {}", cut, p)),
                    Ok(Err(e)) => return v(w, "C08", "diff-error", format!("diff_updates failed on cut {:?}: {}", cut, e)),
                    Ok(Ok(d)) => d,
                };
                let dd = match if v2 { Update::decode_v2(&d) } else { Update::decode_v1(&d) } {
                    Ok(x) => x,
                    Err(e) => return v(w, "C08", "diff-undecodable", format!("the output of diff_updates for cut {:?} does not decode: {}", cut, e)),
                };
                let mut got: HashMap<(u64, u32), u8> = HashMap::new();
                for b in yrs::verif::update_blocks(&dd).iter().filter(|b| b.kind != 2) {
                    for k in b.id.clock..b.id.clock + b.len {
                        got.insert((b.id.client.get(), k), b.kind);
                    }
                }
                let want: HashMap<(u64, u32), u8> = kinds.iter().filter(|((c, k), _)| *k >= cut.get(&yrs::block::ClientID::new(*c))).map(|(a, b)| (*a, *b)).collect();
                w.cnt.inc("c08_cut_diffs");
                if got != want {
                    let mut extra: Vec<_> = got.iter().filter(|(k, v)| want.get(*k) != Some(*v)).map(|(k, v)| (*k, *v)).collect();
                    let mut missing: Vec<_> = want.iter().filter(|(k, v)| got.get(*k) != Some(*v)).map(|(k, v)| (*k, *v)).collect();
                    extra.sort();
                    missing.sort();
                    extra.truncate(6);
                    missing.truncate(6);
                    return v(w, "C08", "diff-not-restriction", format!("diff_updates_v{}(u, {:?}) is not u restricted to the clocks above the vector: units (client, clock) -> kind it should not carry or carries in another kind {:?}, units it lacks {:?}", if v2 { 2 } else { 1 }, cut, extra, missing));
                }
                if crate::model::idset_units(dd.delete_set()) != crate::model::idset_units(uu.delete_set()) {
                    return v(w, "C08", "diff-drops-deletions", format!("diff_updates_v{}(u, {:?}) does not carry u's delete set", if v2 { 2 } else { 1 }, cut));
                }
            }
        }
        // encode_state_vector_from_update(u) for the gap-free whole-history update
        let f0 = fresh(400_013);
        if f0.apply(&u, v2).is_ok() && !f0.doc.transact().has_missing_updates() {
            let want = f0.doc.transact().state_vector();
            let got = catch(|| if v2 { yrs::encode_state_vector_from_update_v2(&u) } else { yrs::encode_state_vector_from_update_v1(&u) });
            match got {
                Err(p) => return v(w, "C08", &format!("panic:{}", p.split(' ').next().unwrap_or("")), format!("encode_state_vector_from_update panicked: {}", p)),
                Ok(Err(e)) => return v(w, "C08", "sv-from-update-error", format!("{}", e)),
                Ok(Ok(b)) => match if v2 { StateVector::decode_v2(&b) } else { StateVector::decode_v1(&b) } {
                    Ok(g) => {
                        w.cnt.inc("c08_sv_from_update");
                        if !sv_eq(&g, &want) {
                            return v(w, "C08", "sv-from-update", format!("encode_state_vector_from_update_v{} = {:?}, an empty document after applying the update has {:?}", if v2 { 2 } else { 1 }, g, want));
                        }
                    }
                    Err(e) => return v(w, "C08", "sv-from-update-error", format!("result does not decode: {}", e)),
                },
            }
        }
    }
    Ok(())
}

/// Per-replica monitors after every step.
pub fn observe_ext(w: &mut World, r: usize) -> Result<(), Violation> {
    if w.mon.c15 {
        let (d, t) = (w.reps[r].dump(), w.ext.twins[r].dump());
        w.cnt.inc("c15_twin_comparisons");
        if d != t {
            return v(w, "C15", "twin-differs", format!("r{} (gc {}) and its twin with the opposite gc setting, fed the same updates, differ:\n   {}\n   {}", w.reps[r].cfg.id, w.reps[r].cfg.gc, d, t));
        }
    }
    if w.mon.c14 {
        check_stickies(w, r)?;
    }
    if w.mon.c16 {
        check_delete_set(w, r)?;
    }
    if w.mon.c20 {
        crate::weak::check(w, r)?;
    }
    if w.mon.c05 {
        check_lww(w, r)?;
    }
    Ok(())
}

/// C16 (document part): the delete set computed from a document contains exactly the ids of its
/// deleted content.
fn check_delete_set(w: &mut World, r: usize) -> Result<(), Violation> {
    let rep = &w.reps[r];
    let txn = rep.doc.transact();
    let ds = txn.snapshot().delete_set;
    let blocks = yrs::verif::store_blocks(&txn);
    drop(txn);
    let ds_units: HashSet<Uid> = idset_units(&ds).into_iter().collect();
    let mut deleted: HashSet<Uid> = HashSet::new();
    for b in blocks.iter().filter(|b| b.kind != 2 && b.deleted) {
        for k in b.id.clock..b.id.clock + b.len {
            deleted.insert((b.id.client.get(), k));
        }
    }
    w.cnt.inc("c16_delete_sets_checked");
    if ds_units != deleted {
        let extra: Vec<&Uid> = ds_units.difference(&deleted).take(3).collect();
        let missing: Vec<&Uid> = deleted.difference(&ds_units).take(3).collect();
        return v(w, "C16", "delete-set-vs-store", format!("snapshot().delete_set of r{} differs from the deleted blocks of its store: in the set only {:?}, in the store only {:?}", rep.cfg.id, extra, missing));
    }
    // canonical form of the computed set
    for (_, ranges) in ds.iter() {
        let rs: Vec<_> = ranges.iter().cloned().collect();
        if rs.is_empty() || rs.windows(2).any(|x| x[0].end >= x[1].start) || rs.iter().any(|x| x.start >= x.end) {
            return v(w, "C16", "delete-set-not-canonical", format!("delete set of r{} is not canonical: {:?}", rep.cfg.id, ds));
        }
    }
    // visible elements are not in it; received deletions of integrated units are
    let lo = rep.model.lower();
    for (c, labels, uids) in w.sequences(r) {
        if let Some(uids) = uids {
            for (l, u) in labels.iter().zip(uids.iter()) {
                if ds_units.contains(u) {
                    return v(w, "C16", "visible-in-delete-set", format!("element {} ({:?}) of {} is visible on r{} but its id is in the delete set", l, u, c, rep.cfg.id));
                }
            }
        }
    }
    if let Some(u) = rep.model.del.iter().find(|u| lo.contains(u) && !ds_units.contains(u)) {
        return v(w, "C16", "deletion-missing-from-delete-set", format!("r{} received the deletion of the integrated unit {:?} but its delete set does not contain it", rep.cfg.id, u));
    }
    Ok(())
}

/// C05: necessary conditions of a causal last-writer-wins register, per key and replica state.
fn check_lww(w: &mut World, r: usize) -> Result<(), Violation> {
    use yrs::{Map, Xml};
    let rep = &w.reps[r];
    let txn = rep.doc.transact();
    let integ = integrated_units(&yrs::verif::store_blocks(&txn));
    let lo = rep.model.lower();
    let mut shown: HashMap<(String, String), String> = HashMap::new();
    let mut live: HashSet<String> = HashSet::new();
    for (h, _) in live_types(&rep.roots, &txn) {
        let c = format!("{:?}", h.id());
        live.insert(c.clone());
        match &h {
            Handle::Map(m) => {
                for (k, o) in m.iter(&txn) {
                    shown.insert((c.clone(), k.to_string()), label_of_out(&o));
                }
            }
            Handle::XElem(e) => {
                for (k, o) in e.attributes(&txn) {
                    shown.insert((c.clone(), k.to_string()), label_of_out(&o));
                }
            }
            Handle::XText(e) => {
                for (k, o) in e.attributes(&txn) {
                    shown.insert((c.clone(), k.to_string()), label_of_out(&o));
                }
            }
            _ => {}
        }
    }
    drop(txn);
    // subtree removal: a nested type whose item is deleted must be unreachable
    for (cid, u) in w.ext.nested.iter() {
        if rep.model.del.contains(u) && lo.contains(u) && live.contains(cid) {
            let d = format!("nested type {} is still reachable on r{} although the item holding it was overwritten/removed there", cid, rep.cfg.id);
            return viol("C05", "subtree-still-reachable", format!("{} ;; log tail: {}", d, w.tail(6)));
        }
    }
    let mut placeholder: HashSet<Uid> = HashSet::new();
    for b in yrs::verif::store_blocks(&rep.doc.transact()).iter().filter(|b| b.kind == 1) {
        for k in b.id.clock..b.id.clock + b.len {
            placeholder.insert((b.id.client.get(), k));
        }
    }
    // group known writes per register
    let mut regs: BTreeMap<(String, String), Vec<&LwwWrite>> = BTreeMap::new();
    for wr in w.ext.writes.iter() {
        // a write this replica holds only as a GC placeholder carries no information about what it
        // overwrote (and is itself deleted): it cannot be expected to hide anything here
        // (a GC *range*, that is: an item whose content was collected in place keeps its position
        // in the key's chain and still counts)
        if integ.contains(&wr.uid) && live.contains(&wr.c) && !placeholder.contains(&wr.uid) {
            regs.entry((wr.c.clone(), wr.key.clone())).or_default().push(wr);
        }
    }
    let mut checks = 0u64;
    let mut conc = false;
    for ((c, key), known) in regs.iter() {
        checks += 1;
        let followed = |x: &LwwWrite| known.iter().any(|y| y.uid != x.uid && y.ctx.contains(&x.uid));
        let maximal: Vec<&&LwwWrite> = known.iter().filter(|x| !followed(x)).collect();
        if maximal.len() > 1 {
            conc = true;
        }
        let deleted = |x: &LwwWrite| rep.model.del.contains(&x.uid);
        let gone = |x: &LwwWrite| rep.model.gcform.contains(&x.uid);
        match shown.get(&(c.clone(), key.clone())) {
            Some(label) => {
                // several writes may carry the same plain value (a value written again): the shown value is fine if
                // *some* write with this label is neither overwritten by a received write nor removed
                let cands: Vec<&&LwwWrite> = known.iter().filter(|x| &x.label == label).collect();
                if cands.is_empty() {
                    // value of a write this monitor did not record (prelim content of a nested map) - skip
                    continue;
                }
                if cands.len() > 1 {
                    w.cnt.inc("c05_states_showing_a_value_written_more_than_once");
                }
                let fine = cands.iter().any(|x| !followed(x) && !(deleted(x) && lo.contains(&x.uid)));
                if !fine {
                    let wv = cands[0];
                    if cands.iter().all(|x| followed(x)) {
                        let by: Vec<String> = known.iter().filter(|y| y.ctx.contains(&wv.uid)).map(|y| y.label.clone()).collect();
                        let d = format!("r{}: {}[{}] shows {} ({:?}) although the integrated write(s) {:?} had seen it (overwritten value resurfaced)", rep.cfg.id, c, key, label, wv.uid, by);
                        return viol("C05", "resurfaced-overwritten", format!("{} ;; log tail: {}", d, w.tail(6)));
                    }
                    let d = format!("r{}: {}[{}] shows {} ({:?}) although a removal of it has been received", rep.cfg.id, c, key, label, wv.uid);
                    return viol("C05", "resurfaced-removed", format!("{} ;; log tail: {}", d, w.tail(6)));
                }
            }
            None => {
                // absent: some maximal write must have been removed
                if !maximal.iter().any(|x| deleted(x) || gone(x)) && known.iter().all(|x| lo.contains(&x.uid)) {
                    let all: Vec<String> = w.ext.writes.iter().filter(|x| &x.c == c && &x.key == key).map(|x| format!("{}@{:?} integ={} gcform={} del={}", x.label, x.uid, integ.contains(&x.uid), rep.model.gcform.contains(&x.uid), rep.model.del.contains(&x.uid))).collect();
                    let d = format!("r{}: {}[{}] is absent although no removal of a maximal write was received; maximal writes {:?}; all recorded writes of the key: {:?}", rep.cfg.id, c, key, maximal.iter().map(|x| (&x.label, x.uid)).collect::<Vec<_>>(), all);
                    return viol("C05", "lost-write", format!("{} ;; log tail: {}", d, w.tail(6)));
                }
            }
        }
        // a maximal write that follows every other known write and was not removed must be shown
        for m in maximal.iter() {
            let sole = known.iter().all(|y| y.uid == m.uid || m.ctx.contains(&y.uid));
            if sole && !deleted(m) && !gone(m) && lo.contains(&m.uid) {
                if shown.get(&(c.clone(), key.clone())) != Some(&m.label) {
                    let d = format!("r{}: {}[{}] shows {:?} but the write {} ({:?}) follows every other received write and was not removed (a write concurrent with a removal must survive it)", rep.cfg.id, c, key, shown.get(&(c.clone(), key.clone())), m.label, m.uid);
                    return viol("C05", "winner-not-shown", format!("{} ;; log tail: {}", d, w.tail(6)));
                }
            }
        }
    }
    if conc {
        w.ext.lww_concurrent = true;
    }
    w.cnt.add("c05_register_states_checked", checks);
    Ok(())
}

pub fn finish_ext(w: &mut World) -> Result<(), Violation> {
    if w.mon.c13 {
        for k in 0..w.ext.snaps.len() {
            restore_check(w, k)?;
        }
    }
    if w.mon.c15 {
        for r in 0..w.reps.len() {
            rebuild_check(w, r)?;
        }
        // replicas with different gc settings converge in both directions
        let d0 = w.reps[0].dump();
        for r in 1..w.reps.len() {
            let d = w.reps[r].dump();
            if d != d0 {
                return v(w, "C15", "diverge", format!("r{} (gc {}) and r{} (gc {}) differ after full delivery:\n   {}\n   {}", w.reps[0].cfg.id, w.reps[0].cfg.gc, w.reps[r].cfg.id, w.reps[r].cfg.gc, d0, d));
            }
        }
    }
    if w.mon.c05 || w.mon.c06 || w.mon.c14 || w.mon.c20 {
        // convergence of the final states (shared with C01) is part of these properties' statements
        let d0 = w.reps[0].dump();
        for r in 1..w.reps.len() {
            let d = w.reps[r].dump();
            if d != d0 {
                return v(w, w.mon.prop, "diverge", format!("replicas differ after full delivery:\n   {}\n   {}", d0, d));
            }
        }
    }
    Ok(())
}

pub fn nontrivial_ext(prop: &str, w: &World) -> bool {
    match prop {
        "C05" => w.cnt.get("c05_register_states_checked") > 0 && w.ext.lww_concurrent,
        "C06" => w.cnt.get("c06_exchanges") > 0,
        "C07" => w.cnt.get("c07_changing_transactions") >= 3 && w.nonfifo,
        "C08" => w.cnt.get("c08_comparisons") > 0,
        "C11" => w.cnt.get("c11_events_applied") >= 3 && w.cnt.get("msgs_rebroadcast") > 0,
        "C13" => w.cnt.get("c13_restores") > 0,
        "C20" => w.cnt.get("c20_dereferences_checked") > 0,
        "C14" => w.cnt.get("c14_resolutions_checked") > 0,
        "C16" => w.cnt.get("c16_delete_sets_checked") > 3 && w.cnt.get("op_seq_remove") + w.cnt.get("op_text_remove") + w.cnt.get("op_map_remove") + w.cnt.get("op_map_set") > 0,
        "C15" => w.cnt.get("c15_twin_comparisons") > 3 && w.cnt.get("op_seq_remove") + w.cnt.get("op_text_remove") + w.cnt.get("op_map_remove") + w.cnt.get("op_map_set") > 0,
        _ => false,
    }
}
