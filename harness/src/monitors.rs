//! Property monitors that need their own state or their own step kinds (everything that is not
//! part of the core simulator loop in world.rs).
use crate::ops::Effect;
use crate::prog::Step;
use crate::world::*;
use yrs::StateVector;

#[derive(Default)]
pub struct Ext {}

pub fn init(_w: &mut World) {}

pub fn c07_events(_w: &mut World, _r: usize, _v1: &[Vec<u8>], _v2: &[Vec<u8>]) -> Result<(), Violation> {
    Ok(())
}

pub fn after_txn(_w: &mut World, _r: usize, _effects: &[Effect], _emitted: usize, _before: Option<String>) -> Result<(), Violation> {
    Ok(())
}

pub fn relay_payload(_w: &mut World, _from: usize, _to: usize, _form: u8, _sv: &StateVector, _bytes: &[u8]) -> Result<(), Violation> {
    Ok(())
}

pub fn exec_ext(_w: &mut World, _step: &Step, _touched: &mut Vec<usize>) -> Result<(), Violation> {
    Ok(())
}

pub fn observe_ext(_w: &mut World, _r: usize) -> Result<(), Violation> {
    Ok(())
}

pub fn finish_ext(_w: &mut World) -> Result<(), Violation> {
    Ok(())
}

pub fn nontrivial_ext(_prop: &str, _w: &World) -> bool {
    false
}
