//! Small helpers shared by all workloads: hashing, panic capture, argument parsing.
use std::cell::RefCell;
use std::collections::BTreeMap;
use std::panic::{catch_unwind, AssertUnwindSafe};

pub type Rng = fastrand::Rng;

pub fn fnv(data: &[u8]) -> u64 {
    let mut h: u64 = 0xcbf29ce484222325;
    for b in data {
        h ^= *b as u64;
        h = h.wrapping_mul(0x100000001b3);
    }
    h
}

pub fn fnv_str(s: &str) -> u64 {
    fnv(s.as_bytes())
}

thread_local! {
    static LAST_PANIC: RefCell<String> = RefCell::new(String::new());
}

/// Installs a panic hook that remembers `file:line: message` of the last panic instead of printing.
pub fn install_panic_hook() {
    std::panic::set_hook(Box::new(|info| {
        let loc = info
            .location()
            .map(|l| {
                let f = l.file();
                let f = f.rsplit("/repo/").next().unwrap_or(f);
                format!("{}:{}", f, l.line())
            })
            .unwrap_or_default();
        let msg = if let Some(s) = info.payload().downcast_ref::<&str>() {
            s.to_string()
        } else if let Some(s) = info.payload().downcast_ref::<String>() {
            s.clone()
        } else {
            String::from("?")
        };
        if std::env::var("YMON_BT").is_ok() {
            eprintln!("PANIC {} {}\n{}", loc, msg, std::backtrace::Backtrace::force_capture());
        }
        LAST_PANIC.with(|p| *p.borrow_mut() = format!("{} [{}]", loc, msg.chars().take(160).collect::<String>()));
    }));
}

/// Runs `f`, turning a panic into `Err("file:line [message]")`.
pub fn catch<T>(f: impl FnOnce() -> T) -> Result<T, String> {
    match catch_unwind(AssertUnwindSafe(f)) {
        Ok(v) => Ok(v),
        Err(_) => Err(LAST_PANIC.with(|p| p.borrow().clone())),
    }
}

/// `--key value` command line arguments.
pub struct Args {
    pub pos: Vec<String>,
    pub kv: BTreeMap<String, String>,
}

impl Args {
    pub fn parse() -> Args {
        let mut pos = vec![];
        let mut kv = BTreeMap::new();
        let mut it = std::env::args().skip(1);
        while let Some(a) = it.next() {
            if let Some(k) = a.strip_prefix("--") {
                let v = it.next().unwrap_or_default();
                kv.insert(k.to_string(), v);
            } else {
                pos.push(a);
            }
        }
        Args { pos, kv }
    }
    pub fn u64(&self, k: &str, d: u64) -> u64 {
        self.kv.get(k).and_then(|v| v.parse().ok()).unwrap_or(d)
    }
    pub fn str(&self, k: &str, d: &str) -> String {
        self.kv.get(k).cloned().unwrap_or_else(|| d.to_string())
    }
    pub fn has(&self, k: &str) -> bool {
        self.kv.contains_key(k)
    }
}

/// Counter map used for coverage statistics.
#[derive(Default, Clone, Debug)]
pub struct Counters(pub BTreeMap<String, u64>);

impl Counters {
    pub fn inc(&mut self, k: &str) {
        self.add(k, 1);
    }
    pub fn add(&mut self, k: &str, n: u64) {
        if let Some(v) = self.0.get_mut(k) {
            *v += n;
        } else {
            self.0.insert(k.to_string(), n);
        }
    }
    pub fn max(&mut self, k: &str, n: u64) {
        let e = self.0.entry(k.to_string()).or_insert(0);
        if n > *e {
            *e = n;
        }
    }
    pub fn get(&self, k: &str) -> u64 {
        self.0.get(k).copied().unwrap_or(0)
    }
    pub fn merge(&mut self, o: &Counters) {
        for (k, v) in o.0.iter() {
            if k.starts_with("max_") {
                self.max(k, *v);
            } else {
                self.add(k, *v);
            }
        }
    }
}

/// Injective counter -> char map cycling through 1-, 2-, 3- and 4-byte UTF-8 code points
/// (the 4-byte ones take two UTF-16 code units).
pub fn tag_char(n: u32) -> char {
    let idx = n / 4;
    let c = match n % 4 {
        0 => {
            const A: &[u8] = b"abcdefghijklmnopqrstuvwxyzABCDEFGHIJKLMNOPQRSTUVWXYZ0123456789";
            if (idx as usize) < A.len() {
                A[idx as usize] as u32
            } else {
                0xAC00 + idx
            }
        }
        1 => {
            if idx < 0x600 {
                0x100 + idx
            } else {
                0x6000 + idx
            }
        }
        2 => 0x4E00 + (idx % 0x1000) + if idx >= 0x1000 { 0x3000 } else { 0 },
        _ => 0x20000 + idx,
    };
    char::from_u32(c).unwrap_or('?')
}

thread_local! {
    static CAND_PATH: RefCell<String> = RefCell::new(String::new());
}

/// Where the program about to be executed is noted (so that a process death can be attributed to
/// the exact program, also while minimising).
pub fn set_candidate_path(p: &str) {
    CAND_PATH.with(|c| *c.borrow_mut() = p.to_string());
}

pub fn note_candidate(workload: &str, prop: &str, program: &serde_json::Value) {
    CAND_PATH.with(|c| {
        let p = c.borrow();
        if !p.is_empty() {
            let doc = serde_json::json!({"workload": workload, "prop": prop, "program": program, "minimised": {"program": program}});
            let _ = std::fs::write(&*p, doc.to_string());
        }
    });
}

/// Verbose logs (decoded messages) when YMON_DEBUG is set; used by `replay`.
pub fn debug() -> bool {
    use std::sync::OnceLock;
    static D: OnceLock<bool> = OnceLock::new();
    *D.get_or_init(|| std::env::var("YMON_DEBUG").is_ok())
}

/// Violations are reported up to 25 per kind (and 3000 in total) per worker: a frequent kind - in particular a known
/// finding - must not use up the room of a rare one.
pub fn room(violations: &[serde_json::Value], kind: &str) -> bool {
    violations.len() < 3000 && violations.iter().filter(|v| v["kind"].as_str() == Some(kind)).count() < 25
}
