//! C18 — y-sync handshake over two ordered byte channels, and awareness as a per-client
//! last-writer-wins register on its clock.
use crate::dump::*;
use crate::ops::*;
use crate::prog::*;
use crate::util::{catch, Args, Counters, Rng};
use crate::world::make_doc;
use serde_json::json;
use std::cell::RefCell;
use std::collections::{BTreeMap, HashMap, VecDeque};
use std::io::Write;
use std::rc::Rc;
use std::sync::atomic::{AtomicU64, Ordering};
use std::sync::Arc;
use yrs::sync::{Awareness, AwarenessUpdate, DefaultProtocol, Message, MessageReader, Protocol, SyncMessage};
use yrs::updates::decoder::{Decode, DecoderV1};
use yrs::updates::encoder::{Encode, Encoder, EncoderV1};
use yrs::{OffsetKind, ReadTxn, Transact, Update};

struct Peer {
    doc: yrs::Doc,
    roots: Roots,
    kind: OffsetKind,
    out: Rc<RefCell<Vec<Vec<u8>>>>,
    _sub: yrs::Subscription,
    id: u64,
}

fn peer(id: u64, rng: &mut Rng) -> Peer {
    let bytes = rng.bool();
    let doc = make_doc(id, rng.bool(), bytes, rng.bool());
    let roots = Roots::of(&doc);
    let out = Rc::new(RefCell::new(vec![]));
    let o = out.clone();
    let _sub = doc.observe_update_v1(move |_, e| o.borrow_mut().push(e.update.clone())).unwrap();
    Peer { doc, roots, kind: if bytes { OffsetKind::Bytes } else { OffsetKind::Utf16 }, out, _sub, id }
}

fn edit(p: &Peer, rng: &mut Rng, prof: &Profile, tagn: &mut u32, nchars: &mut u32, log: &mut Vec<String>) -> Result<(), String> {
    let calls: Vec<Call> = (0..rng.usize(1..3)).map(|_| gen_call(rng, prof)).collect();
    catch(|| {
        let mut txn = p.doc.transact_mut();
        let mut ctx = OpCtx { tagn, kind: p.kind, log, rid: p.id, max_depth: 3, ascii: false, nchars };
        for c in &calls {
            exec_call(c, &p.roots, &mut txn, &mut ctx);
        }
    })
}

fn check_message_roundtrip(bytes: &[u8], cnt: &mut Counters) -> Result<(), String> {
    let mut d = DecoderV1::from(bytes);
    let msgs: Vec<_> = MessageReader::new(&mut d).collect();
    for m in msgs {
        let m = m.map_err(|e| format!("a protocol-produced message does not decode: {}", e))?;
        let again = m.encode_v1();
        let mut d2 = DecoderV1::from(again.as_slice());
        let back: Vec<_> = MessageReader::new(&mut d2).collect();
        cnt.inc("message_roundtrips");
        if back.len() != 1 || back[0].as_ref().ok() != Some(&m) {
            return Err(format!("message {:?} does not survive encode/decode", m));
        }
    }
    Ok(())
}

/// One handshake history. Returns Err((kind, detail)) on violation.
fn run_proto(seed: u64, cnt: &mut Counters, log: &mut Vec<String>) -> Result<bool, (String, String)> {
    let mut rng = Rng::with_seed(seed);
    let p = DefaultProtocol;
    let mut prof = Profile::general();
    prof.subdocs = false;
    let (pa, pb) = (peer(1 + rng.u64(0..2) * 7, &mut rng), peer(5, &mut rng));
    let (mut tagn, mut nchars) = (0u32, 0u32);
    let tail = |log: &Vec<String>| log[log.len().saturating_sub(8)..].join(" ; ");
    // prior divergence, including some shared history
    let mut diverged = false;
    for _ in 0..rng.usize(0..10) {
        let who = if rng.bool() { &pa } else { &pb };
        edit(who, &mut rng, &prof, &mut tagn, &mut nchars, log).map_err(|e| ("harness".to_string(), e))?;
        diverged = true;
        if rng.u8(0..4) == 0 {
            let u = pa.doc.transact().encode_state_as_update_v1(&pb.doc.transact().state_vector());
            pb.doc.transact_mut().apply_update(Update::decode_v1(&u).unwrap()).map_err(|e| ("harness".to_string(), e.to_string()))?;
            log.push("(prior one-way sync a->b)".into());
        }
    }
    pa.out.borrow_mut().clear();
    pb.out.borrow_mut().clear();
    let mut aa = Awareness::new(pa.doc.clone());
    let mut ab = Awareness::new(pb.doc.clone());
    aa.set_local_state_raw("{\"u\":\"a\"}");
    ab.set_local_state_raw("{\"u\":\"b\"}");
    let mut ch_ab: VecDeque<Vec<u8>> = VecDeque::new();
    let mut ch_ba: VecDeque<Vec<u8>> = VecDeque::new();
    for (aw, ch) in [(&aa, &mut ch_ab), (&ab, &mut ch_ba)] {
        let mut e = EncoderV1::new();
        p.start(aw, &mut e).map_err(|e| ("start-error".to_string(), e.to_string()))?;
        let bytes = e.to_vec();
        check_message_roundtrip(&bytes, cnt).map_err(|e| ("message-roundtrip".to_string(), e))?;
        ch.push_back(bytes);
    }
    let mut flush = |pr: &Peer, ch: &mut VecDeque<Vec<u8>>, cnt: &mut Counters| -> Result<(), (String, String)> {
        for u in pr.out.borrow_mut().drain(..) {
            let bytes = Message::Sync(SyncMessage::Update(u)).encode_v1();
            check_message_roundtrip(&bytes, cnt).map_err(|e| ("message-roundtrip".to_string(), e))?;
            ch.push_back(bytes);
        }
        Ok(())
    };
    let edits = rng.usize(0..12);
    let mut done_edits = 0;
    let mut steps = 0;
    let mut interleaved = false;
    loop {
        steps += 1;
        if steps > 2000 {
            return Err(("no-quiescence".into(), format!("channels not empty after 2000 scheduler steps ;; {}", tail(log))));
        }
        let c = rng.u8(0..6);
        if c < 2 && done_edits < edits {
            let (pr, ch) = if c == 0 { (&pa, &mut ch_ab) } else { (&pb, &mut ch_ba) };
            edit(pr, &mut rng, &prof, &mut tagn, &mut nchars, log).map_err(|e| (format!("panic:{}", e.split(' ').next().unwrap_or("")), format!("local edit during the handshake panicked: {}", e)))?;
            flush(pr, ch, cnt)?;
            done_edits += 1;
            if !ch_ab.is_empty() || !ch_ba.is_empty() {
                interleaved = true;
            }
        } else if c % 2 == 0 {
            if let Some(m) = ch_ab.pop_front() {
                log.push("deliver a->b".into());
                let replies = match catch(|| p.handle(&mut ab, &m)) {
                    Err(e) => return Err((format!("panic:{}", e.split(' ').next().unwrap_or("")), format!("handle panicked: {} ;; {}", e, tail(log)))),
                    Ok(Err(e)) => return Err(("handle-error".into(), format!("peer b cannot handle a protocol-produced message: {} ;; {}", e, tail(log)))),
                    Ok(Ok(r)) => r,
                };
                for r in replies {
                    let bytes = r.encode_v1();
                    check_message_roundtrip(&bytes, cnt).map_err(|e| ("message-roundtrip".to_string(), e))?;
                    ch_ba.push_back(bytes);
                }
                flush(&pb, &mut ch_ba, cnt)?;
                cnt.inc("messages_delivered");
            }
        } else if let Some(m) = ch_ba.pop_front() {
            log.push("deliver b->a".into());
            let replies = match catch(|| p.handle(&mut aa, &m)) {
                Err(e) => return Err((format!("panic:{}", e.split(' ').next().unwrap_or("")), format!("handle panicked: {} ;; {}", e, tail(log)))),
                Ok(Err(e)) => return Err(("handle-error".into(), format!("peer a cannot handle a protocol-produced message: {} ;; {}", e, tail(log)))),
                Ok(Ok(r)) => r,
            };
            for r in replies {
                let bytes = r.encode_v1();
                check_message_roundtrip(&bytes, cnt).map_err(|e| ("message-roundtrip".to_string(), e))?;
                ch_ab.push_back(bytes);
            }
            flush(&pa, &mut ch_ab, cnt)?;
            cnt.inc("messages_delivered");
        }
        if done_edits >= edits && ch_ab.is_empty() && ch_ba.is_empty() {
            break;
        }
    }
    let (da, db) = (dump_doc(&pa.roots, &pa.doc.transact()), dump_doc(&pb.roots, &pb.doc.transact()));
    cnt.inc("handshakes");
    if da != db {
        return Err(("diverge".into(), format!("peers are quiescent but differ\n   a {}\n   b {} ;; {}", da, db, tail(log))));
    }
    if pa.doc.transact().has_missing_updates() || pb.doc.transact().has_missing_updates() {
        return Err(("pending-at-quiescence".into(), format!("a peer still reports missing updates at quiescence ;; {}", tail(log))));
    }
    // awareness states were exchanged by start()
    let view = |a: &Awareness| -> BTreeMap<u64, Option<String>> { a.iter().map(|(c, s)| (c.get(), s.data.as_ref().map(|d| d.to_string()))).collect() };
    if view(&aa) != view(&ab) {
        return Err(("awareness-differs".into(), format!("awareness states differ after the handshake: {:?} vs {:?}", view(&aa), view(&ab))));
    }
    Ok(diverged && interleaved)
}

type Reg = BTreeMap<u64, (u32, Option<String>)>;

fn view(a: &Awareness) -> Reg {
    a.iter().map(|(c, s)| (c.get(), (s.clock, s.data.as_ref().map(|d| d.to_string())))).collect()
}

fn run_aware(seed: u64, cnt: &mut Counters, log: &mut Vec<String>) -> Result<bool, (String, String)> {
    let mut rng = Rng::with_seed(seed);
    let n = rng.usize(2..6);
    let now = Arc::new(AtomicU64::new(1));
    let mk = |id: u64| {
        let n2 = now.clone();
        Awareness::with_clock(yrs::Doc::with_client_id(id), move || n2.load(Ordering::SeqCst))
    };
    let mut inst: Vec<Awareness> = (1..=n as u64).map(|i| mk(i)).collect();
    let mut pool: Vec<Vec<u8>> = vec![];
    let mut payload = 0u32;
    let tail = |log: &Vec<String>| log[log.len().saturating_sub(8)..].join(" ; ");
    let mut saw_timeout = false;
    for _ in 0..rng.usize(5..70) {
        now.fetch_add(1, Ordering::SeqCst);
        match rng.u8(0..12) {
            0..=2 => {
                let i = rng.usize(0..n);
                payload += 1;
                log.push(format!("a{} set {}", i + 1, payload));
                inst[i].set_local_state_raw(format!("{{\"p\":{}}}", payload));
                pool.push(inst[i].update().map_err(|e| ("harness".to_string(), e.to_string()))?.encode_v1());
            }
            3 => {
                let i = rng.usize(0..n);
                log.push(format!("a{} clean (disconnect)", i + 1));
                inst[i].clean_local_state();
                let id = inst[i].client_id();
                pool.push(inst[i].update_with_clients([id]).map_err(|e| ("harness".to_string(), e.to_string()))?.encode_v1());
            }
            4 => {
                let (i, j) = (rng.usize(0..n), rng.usize(0..n));
                if i == j {
                    continue;
                }
                let target = inst[j].client_id();
                if inst[i].meta(target).is_none() {
                    continue;
                }
                saw_timeout = true;
                log.push(format!("a{} times out a{}", i + 1, j + 1));
                inst[i].remove_state(target);
                pool.push(inst[i].update_with_clients([target]).map_err(|e| ("harness".to_string(), e.to_string()))?.encode_v1());
            }
            _ => {
                if pool.is_empty() {
                    continue;
                }
                let k = rng.usize(0..pool.len());
                let i = rng.usize(0..n);
                let u = AwarenessUpdate::decode_v1(&pool[k]).map_err(|e| ("awareness-decode".to_string(), e.to_string()))?;
                let again = AwarenessUpdate::decode_v1(&u.encode_v1()).map_err(|e| ("awareness-decode".to_string(), e.to_string()))?;
                if again != u {
                    return Err(("awareness-roundtrip".into(), format!("awareness update {:?} does not survive encode/decode", u)));
                }
                let before = view(&inst[i]);
                let own = inst[i].local_state_raw();
                log.push(format!("deliver p{} -> a{}", k, i + 1));
                inst[i].apply_update(u.clone()).map_err(|e| ("awareness-apply-error".to_string(), e.to_string()))?;
                cnt.inc("awareness_deliveries");
                let after = view(&inst[i]);
                for (c, (clk, _)) in before.iter() {
                    if let Some((clk2, _)) = after.get(c) {
                        if clk2 < clk {
                            return Err(("clock-went-back".into(), format!("clock of client {} at instance a{} went from {} to {} ;; {}", c, i + 1, clk, clk2, tail(log))));
                        }
                    } else {
                        return Err(("entry-vanished".into(), format!("entry of client {} vanished at instance a{}", c, i + 1)));
                    }
                }
                if own.is_some() && inst[i].local_state_raw() != own {
                    return Err(("own-state-erased".into(), format!("a remote message changed/erased the live local state of instance a{} ;; {}", i + 1, tail(log))));
                }
                // idempotence
                inst[i].apply_update(u).map_err(|e| ("awareness-apply-error".to_string(), e.to_string()))?;
                if view(&inst[i]) != after {
                    return Err(("not-idempotent".into(), format!("applying the same awareness update twice changed instance a{} ;; {}", i + 1, tail(log))));
                }
                if rng.bool() {
                    pool.push(inst[i].update().map_err(|e| ("harness".to_string(), e.to_string()))?.encode_v1());
                }
            }
        }
    }
    if pool.is_empty() {
        return Ok(false);
    }
    // passive observers: the same multiset, different orders, with duplicates
    let mut obs = vec![mk(100), mk(101), mk(102)];
    for o in obs.iter_mut() {
        let mut order: Vec<usize> = (0..pool.len()).collect();
        for _ in 0..pool.len() / 3 + 1 {
            order.push(rng.usize(0..pool.len()));
        }
        rng.shuffle(&mut order);
        for k in order {
            let before = view(o);
            o.apply_update(AwarenessUpdate::decode_v1(&pool[k]).unwrap()).map_err(|e| ("awareness-apply-error".to_string(), e.to_string()))?;
            let after = view(o);
            for (c, (clk, _)) in before.iter() {
                if after.get(c).map(|x| x.0 < *clk).unwrap_or(true) {
                    return Err(("clock-went-back".into(), format!("observer: clock of client {} decreased or vanished", c)));
                }
            }
        }
    }
    // model: per-client register ordered by (clock, null beats value)
    let mut model: Reg = Reg::new();
    for p in &pool {
        for (c, e) in AwarenessUpdate::decode_v1(p).unwrap().clients.iter() {
            let new = if e.json.as_ref() == "null" { None } else { Some(e.json.to_string()) };
            match model.get_mut(&c.get()) {
                None => {
                    model.insert(c.get(), (e.clock, new));
                }
                Some(cur) => {
                    if e.clock > cur.0 || (e.clock == cur.0 && new.is_none() && cur.1.is_some()) {
                        *cur = (e.clock, new);
                    }
                }
            }
        }
    }
    cnt.inc("awareness_runs");
    let v0 = view(&obs[0]);
    for o in &obs[1..] {
        if view(o) != v0 {
            return Err(("order-sensitive".into(), format!("passive observers that received the same awareness updates in different orders differ\n   {:?}\n   {:?} ;; {}", v0, view(o), tail(log))));
        }
    }
    if v0 != model {
        return Err(("model-mismatch".into(), format!("passive observer differs from the last-writer-wins register model\n   observer {:?}\n   model    {:?} ;; {}", v0, model, tail(log))));
    }
    let _ = HashMap::<u8, u8>::new();
    Ok(saw_timeout || pool.len() > 3)
}

pub fn cmd_sync(args: &Args) -> i32 {
    let tier = args.str("tier", "quick");
    let seed = args.u64("seed", 1);
    let from = args.u64("from", 0);
    let count = args.u64("count", 100);
    let out = args.str("out", "");
    let part = args.str("part", "proto");
    let replay_dir = args.str("replay-dir", "/verif/replays");
    let progress = args.str("progress", "");
    let verbose = args.has("verbose");
    let mut cnt = Counters::default();
    let mut hashes = vec![];
    let mut violations = vec![];
    let mut samples = vec![];
    let mut harness_errors = vec![];
    let mut seen: Vec<String> = vec![];
    let mut evaluations = 0u64;
    for idx in from..from + count {
        if !progress.is_empty() {
            if let Ok(mut f) = std::fs::File::create(&progress) {
                let _ = writeln!(f, "{}", idx);
            }
        }
        let hseed = crate::util::fnv_str(&format!("{}/C18/{}/{}", seed, part, idx));
        let mut log = vec![];
        let res = catch(|| if part == "proto" { run_proto(hseed, &mut cnt, &mut log) } else { run_aware(hseed, &mut cnt, &mut log) });
        evaluations += 1;
        if verbose {
            for l in &log {
                println!("  {}", l);
            }
        }
        let res = match res {
            Err(p) => Err((format!("panic:{}", p.split(' ').next().unwrap_or("")), format!("{} ;; {}", p, log[log.len().saturating_sub(6)..].join(" ; ")))),
            Ok(r) => r,
        };
        match res {
            Ok(nontrivial) => {
                if nontrivial {
                    hashes.push(crate::util::fnv_str(&format!("{}{}", part, log.join("\n"))));
                    if samples.len() < 2 {
                        samples.push(json!({"part": part, "idx": idx, "log": log.iter().take(30).collect::<Vec<_>>()}));
                    }
                }
            }
            Err((k, d)) => {
                if k == "harness" {
                    harness_errors.push(json!({"idx": idx, "error": d}));
                    continue;
                }
                if verbose {
                    println!("REPLAY violation property=C18 kind={}\n{}", k, d);
                }
                let mut entry = json!({"prop": "C18", "kind": k, "detail": d, "idx": idx});
                if !seen.contains(&k) {
                    seen.push(k.clone());
                    let _ = std::fs::create_dir_all(&replay_dir);
                    let path = format!("{}/C18-{}-s{}-i{}.json", replay_dir, k.replace(|c: char| !c.is_alphanumeric(), "_"), seed, idx);
                    let doc = json!({"workload": "crash", "prop": "C18", "tier": tier, "seed": seed, "idx": idx, "cmd_workload": "sync",
                        "cmd_args": ["--part", part, "--verbose", "1"], "violation": {"prop": "C18", "kind": k, "detail": d}, "log": log});
                    if std::fs::write(&path, serde_json::to_string_pretty(&doc).unwrap()).is_ok() {
                        entry["replay"] = json!(path);
                    }
                }
                if crate::util::room(&violations, entry["kind"].as_str().unwrap_or("")) {
                    violations.push(entry);
                }
            }
        }
    }
    let summary = json!({"workload": "sync", "prop": "C18", "tier": tier, "seed": seed, "from": from, "count": count,
        "evaluations": evaluations, "hashes": hashes, "counters": cnt.0, "violations": violations, "samples": samples, "harness_errors": harness_errors});
    let text = serde_json::to_string(&summary).unwrap();
    if verbose {
        return if violations.is_empty() { 0 } else { 1 };
    }
    if out.is_empty() {
        println!("{}", text);
    } else {
        std::fs::write(&out, text).unwrap();
    }
    0
}
