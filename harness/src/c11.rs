//! C11 — change events are exact edit scripts. Every live type of every replica gets an observer;
//! a shadow copy is maintained *only* from events and compared with the public read API after
//! every transaction (local or remote). Roots also get deep observers whose paths must resolve.
use crate::dump::*;
use crate::world::*;
use std::collections::{BTreeMap, HashMap};
use std::sync::{Arc, Mutex};
use yrs::types::text::YChange;
use yrs::types::{Change, Delta, EntryChange, Event, PathSegment};
use yrs::{Any, Array, DeepObservable, Map, Observable, OffsetKind, Out, ReadTxn, Text, TextRef, Transact, Xml, XmlFragment};

#[derive(Clone, Debug, PartialEq, Default)]
pub struct Shadow {
    /// sequence component: (label, attributes) — attributes only used by text-like types
    pub seq: Vec<(String, BTreeMap<String, String>)>,
    /// map component: map entries / XML attributes
    pub map: BTreeMap<String, String>,
}

#[derive(Default)]
pub struct RepShadow {
    pub shadows: HashMap<String, Shadow>,
    /// shadow before the first event of the current transaction
    pub before: HashMap<String, Shadow>,
    pub fired: HashMap<String, u32>,
    /// what the fired event contained: "empty", "same-value", "other"
    pub class: HashMap<String, String>,
    pub err: Option<(String, String)>,
    pub deep_fired: HashMap<String, u32>,
    /// (root, path, target) of every event seen by a deep observer in this transaction
    pub deep: Vec<(String, Vec<PathSegment>, String)>,
    pub kind: Option<OffsetKind>,
}

pub struct C11State {
    pub reps: Vec<Arc<Mutex<RepShadow>>>,
    pub subs: Vec<yrs::Subscription>,
}

fn unit_len(label: &str, k: OffsetKind) -> u32 {
    if let Some(c) = label.strip_prefix('c').and_then(|s| s.chars().next()) {
        match k {
            OffsetKind::Bytes => c.len_utf8() as u32,
            OffsetKind::Utf16 => c.len_utf16() as u32,
        }
    } else {
        1
    }
}

fn set_err(sh: &mut RepShadow, kind: &str, d: String) {
    if sh.err.is_none() {
        sh.err = Some((kind.to_string(), d));
    }
}

fn apply_text_delta(sh: &mut RepShadow, cid: &str, delta: &[Delta]) {
    let kind = sh.kind.unwrap_or(OffsetKind::Utf16);
    let mut i = 0usize;
    let mut seq = sh.shadows.get(cid).map(|s| s.seq.clone()).unwrap_or_default();
    for d in delta {
        match d {
            Delta::Inserted(v, a) => {
                let am = attrs_map(a);
                match v {
                    Out::Any(Any::String(s)) => {
                        for c in s.chars() {
                            seq.insert(i.min(seq.len()), (format!("c{}", c), am.clone()));
                            i += 1;
                        }
                    }
                    other => {
                        seq.insert(i.min(seq.len()), (format!("e{}", label_of_out(other)), am.clone()));
                        i += 1;
                    }
                }
            }
            Delta::Deleted(n) => {
                let mut rem = *n;
                while rem > 0 {
                    if i >= seq.len() {
                        set_err(sh, "text-delta-out-of-range", format!("{}: delete runs past the end of what the observer knew (delta {:?})", cid, delta));
                        return;
                    }
                    let l = unit_len(&seq[i].0, kind);
                    if l > rem {
                        set_err(sh, "text-delta-splits-unit", format!("{}: delete({}) splits a character (delta {:?})", cid, n, delta));
                        return;
                    }
                    rem -= l;
                    seq.remove(i);
                }
            }
            Delta::Retain(n, a) => {
                let mut rem = *n;
                while rem > 0 {
                    if i >= seq.len() {
                        set_err(sh, "text-delta-out-of-range", format!("{}: retain runs past the end of what the observer knew (delta {:?})", cid, delta));
                        return;
                    }
                    let l = unit_len(&seq[i].0, kind);
                    if l > rem {
                        set_err(sh, "text-delta-splits-unit", format!("{}: retain({}) splits a character (delta {:?})", cid, n, delta));
                        return;
                    }
                    rem -= l;
                    if let Some(a) = a {
                        for (k, v) in a.iter() {
                            if *v == Any::Null {
                                seq[i].1.remove(k.as_ref());
                            } else {
                                seq[i].1.insert(k.to_string(), any_str(v));
                            }
                        }
                    }
                    i += 1;
                }
            }
        }
    }
    sh.shadows.entry(cid.to_string()).or_default().seq = seq;
}

fn apply_changes(sh: &mut RepShadow, cid: &str, delta: &[Change]) {
    let mut seq = sh.shadows.get(cid).map(|s| s.seq.clone()).unwrap_or_default();
    let mut i = 0usize;
    for c in delta {
        match c {
            Change::Added(v) => {
                for x in v {
                    seq.insert(i.min(seq.len()), (label_of_out(x), BTreeMap::new()));
                    i += 1;
                }
            }
            Change::Removed(n) => {
                for _ in 0..*n {
                    if i >= seq.len() {
                        set_err(sh, "change-list-out-of-range", format!("{}: Removed runs past the end of what the observer knew ({:?})", cid, delta));
                        return;
                    }
                    seq.remove(i);
                }
            }
            Change::Retain(n) => {
                i += *n as usize;
                if i > seq.len() {
                    set_err(sh, "change-list-out-of-range", format!("{}: Retain runs past the end of what the observer knew ({:?})", cid, delta));
                    return;
                }
            }
        }
    }
    sh.shadows.entry(cid.to_string()).or_default().seq = seq;
}

/// Returns the class of the key changes: "same-value" if every change is an Updated(v, v).
fn apply_keys(sh: &mut RepShadow, cid: &str, keys: &HashMap<Arc<str>, EntryChange>) -> &'static str {
    let mut map = sh.shadows.get(cid).map(|s| s.map.clone()).unwrap_or_default();
    let mut all_same = !keys.is_empty();
    for (k, c) in keys.iter() {
        let k = k.to_string();
        match c {
            EntryChange::Inserted(v) => {
                all_same = false;
                if map.contains_key(&k) {
                    set_err(sh, "key-inserted-but-existed", format!("{}: key {} reported as Inserted but the observer already saw a value {:?}", cid, k, map.get(&k)));
                }
                map.insert(k, label_of_out(v));
            }
            EntryChange::Updated(o, n) => {
                if label_of_out(o) != label_of_out(n) {
                    all_same = false;
                }
                if map.get(&k) != Some(&label_of_out(o)) {
                    set_err(sh, "key-old-value-wrong", format!("{}: key {} Updated: reported old value {} but the observer saw {:?}", cid, k, label_of_out(o), map.get(&k)));
                }
                map.insert(k, label_of_out(n));
            }
            EntryChange::Removed(o) => {
                all_same = false;
                if map.get(&k) != Some(&label_of_out(o)) {
                    set_err(sh, "key-old-value-wrong", format!("{}: key {} Removed: reported old value {} but the observer saw {:?}", cid, k, label_of_out(o), map.get(&k)));
                }
                map.remove(&k);
            }
        }
    }
    sh.shadows.entry(cid.to_string()).or_default().map = map;
    if all_same {
        "same-value"
    } else {
        "other"
    }
}

fn text_class(d: &[Delta]) -> &'static str {
    if d.is_empty() {
        "empty"
    } else if d.iter().all(|x| matches!(x, Delta::Retain(..))) {
        "retain-only"
    } else {
        "other"
    }
}

fn begin(sh: &mut RepShadow, cid: &str) {
    *sh.fired.entry(cid.to_string()).or_insert(0) += 1;
    if !sh.before.contains_key(cid) {
        let cur = sh.shadows.get(cid).cloned().unwrap_or_default();
        sh.before.insert(cid.to_string(), cur);
    }
}

/// Reads the content of a live type into shadow form through the public read API.
pub fn read_shadow<T: ReadTxn>(h: &Handle, txn: &T) -> Shadow {
    let mut s = Shadow::default();
    match h {
        Handle::Text(_) | Handle::XText(_) => {
            let t: TextRef = h.as_text().unwrap();
            for c in t.diff(txn, YChange::identity) {
                let am = attrs_map(&c.attributes);
                match &c.insert {
                    Out::Any(Any::String(x)) => {
                        for ch in x.chars() {
                            s.seq.push((format!("c{}", ch), am.clone()));
                        }
                    }
                    other => s.seq.push((format!("e{}", label_of_out(other)), am.clone())),
                }
            }
            if let Handle::XText(x) = h {
                for (k, v) in x.attributes(txn) {
                    s.map.insert(k.to_string(), label_of_out(&v));
                }
            }
        }
        Handle::Array(a) => {
            for o in a.iter(txn) {
                s.seq.push((label_of_out(&o), BTreeMap::new()));
            }
        }
        Handle::Map(m) => {
            for (k, v) in m.iter(txn) {
                s.map.insert(k.to_string(), label_of_out(&v));
            }
        }
        Handle::XFrag(f) => {
            for c in f.children(txn) {
                s.seq.push((format!("#{:?}", c.id()), BTreeMap::new()));
            }
        }
        Handle::XElem(f) => {
            for c in f.children(txn) {
                s.seq.push((format!("#{:?}", c.id()), BTreeMap::new()));
            }
            for (k, v) in f.attributes(txn) {
                s.map.insert(k.to_string(), label_of_out(&v));
            }
        }
    }
    s
}

fn attach(state: &Arc<Mutex<RepShadow>>, h: &Handle, subs: &mut Vec<yrs::Subscription>) {
    let cid = format!("{:?}", h.id());
    let st = state.clone();
    match h {
        Handle::Text(t) => {
            let c = cid.clone();
            subs.push(t.observe(move |txn, e| {
                let mut sh = st.lock().unwrap();
                begin(&mut sh, &c);
                let d = e.delta(txn).to_vec();
                sh.class.insert(c.clone(), text_class(&d).into());
                apply_text_delta(&mut sh, &c, &d);
            }));
        }
        Handle::XText(t) => {
            let c = cid.clone();
            subs.push(t.observe(move |txn, e| {
                let mut sh = st.lock().unwrap();
                begin(&mut sh, &c);
                let d = e.delta(txn).to_vec();
                let keys = e.keys(txn);
                let kc = apply_keys(&mut sh, &c, keys);
                let cls = if d.is_empty() && keys.is_empty() { "empty" } else if d.is_empty() && kc == "same-value" { "same-value" } else if keys.is_empty() { text_class(&d) } else { "other" };
                sh.class.insert(c.clone(), cls.into());
                apply_text_delta(&mut sh, &c, &d);
            }));
        }
        Handle::Array(a) => {
            let c = cid.clone();
            subs.push(a.observe(move |txn, e| {
                let mut sh = st.lock().unwrap();
                begin(&mut sh, &c);
                let d = e.delta(txn).to_vec();
                sh.class.insert(c.clone(), if d.is_empty() { "empty".into() } else { "other".into() });
                apply_changes(&mut sh, &c, &d);
            }));
        }
        Handle::Map(m) => {
            let c = cid.clone();
            subs.push(m.observe(move |txn, e| {
                let mut sh = st.lock().unwrap();
                begin(&mut sh, &c);
                let keys = e.keys(txn);
                let kc = if keys.is_empty() { "empty" } else { apply_keys(&mut sh, &c, keys) };
                sh.class.insert(c.clone(), kc.into());
            }));
        }
        Handle::XFrag(f) => {
            let c = cid.clone();
            subs.push(f.observe(move |txn, e| {
                let mut sh = st.lock().unwrap();
                begin(&mut sh, &c);
                let d = e.delta(txn).to_vec();
                sh.class.insert(c.clone(), if d.is_empty() { "empty".into() } else { "other".into() });
                apply_changes(&mut sh, &c, &d);
            }));
        }
        Handle::XElem(f) => {
            let c = cid.clone();
            subs.push(f.observe(move |txn, e| {
                let mut sh = st.lock().unwrap();
                begin(&mut sh, &c);
                let d = e.delta(txn).to_vec();
                let keys = e.keys(txn);
                let kc = apply_keys(&mut sh, &c, keys);
                let cls = if d.is_empty() && keys.is_empty() { "empty" } else if d.is_empty() && kc == "same-value" { "same-value" } else { "other" };
                sh.class.insert(c.clone(), cls.into());
                apply_changes(&mut sh, &c, &d);
            }));
        }
    }
}

fn attach_deep(state: &Arc<Mutex<RepShadow>>, h: &Handle, subs: &mut Vec<yrs::Subscription>) {
    let root = format!("{:?}", h.id());
    let st = state.clone();
    let f = move |_txn: &yrs::TransactionMut, events: &yrs::types::Events| {
        let mut sh = st.lock().unwrap();
        *sh.deep_fired.entry(root.clone()).or_insert(0) += 1;
        for e in events.iter() {
            let (path, target) = match e {
                Event::Text(e) => (e.path(), format!("{:?}", Handle::Text(e.target().clone()).id())),
                Event::Array(e) => (e.path(), format!("{:?}", Handle::Array(e.target().clone()).id())),
                Event::Map(e) => (e.path(), format!("{:?}", Handle::Map(e.target().clone()).id())),
                Event::XmlFragment(e) => (e.path(), format!("{:?}", e.target().id())),
                Event::XmlText(e) => (e.path(), format!("{:?}", Handle::XText(e.target().clone()).id())),
                Event::Weak(_) => continue,
            };
            sh.deep.push((root.clone(), path.into_iter().collect(), target));
        }
    };
    match h {
        Handle::Text(t) => subs.push(t.observe_deep(f)),
        Handle::Array(t) => subs.push(t.observe_deep(f)),
        Handle::Map(t) => subs.push(t.observe_deep(f)),
        Handle::XFrag(t) => subs.push(t.observe_deep(f)),
        _ => {}
    }
}

pub fn init(w: &World) -> C11State {
    let mut st = C11State { reps: vec![], subs: vec![] };
    for rep in w.reps.iter() {
        let s = Arc::new(Mutex::new(RepShadow { kind: Some(rep.kind), ..Default::default() }));
        let txn = rep.doc.transact();
        for (h, _) in live_types(&rep.roots, &txn) {
            s.lock().unwrap().shadows.insert(format!("{:?}", h.id()), read_shadow(&h, &txn));
            attach(&s, &h, &mut st.subs);
            attach_deep(&s, &h, &mut st.subs);
        }
        drop(txn);
        st.reps.push(s);
    }
    st
}

fn resolve<T: ReadTxn>(root: &Handle, path: &[PathSegment], txn: &T) -> Result<Option<Handle>, String> {
    let mut cur = root.clone();
    for seg in path {
        let next: Option<Handle> = match (&cur, seg) {
            (Handle::Map(m), PathSegment::Key(k)) => m.get(txn, k).and_then(|o| Handle::from_out(&o)),
            (Handle::XElem(e), PathSegment::Key(k)) => e.get_attribute(txn, k).and_then(|o| Handle::from_out(&o)),
            (Handle::XText(e), PathSegment::Key(k)) => e.get_attribute(txn, k).and_then(|o| Handle::from_out(&o)),
            (Handle::Array(a), PathSegment::Index(i)) => a.get(txn, *i).and_then(|o| Handle::from_out(&o)),
            (Handle::XFrag(f), PathSegment::Index(i)) => f.get(txn, *i).map(|o| Handle::from_xml(&o)),
            (Handle::XElem(f), PathSegment::Index(i)) => f.get(txn, *i).map(|o| Handle::from_xml(&o)),
            (Handle::Text(_), PathSegment::Index(i)) | (Handle::XText(_), PathSegment::Index(i)) => {
                // index = clock units (UTF-16) before the embed
                let t = cur.as_text().unwrap();
                let mut pos = 0u32;
                let mut found = None;
                for c in t.diff(txn, YChange::identity) {
                    match &c.insert {
                        Out::Any(Any::String(s)) => pos += s.encode_utf16().count() as u32,
                        other => {
                            if pos == *i {
                                found = Handle::from_out(other);
                                break;
                            }
                            pos += 1;
                        }
                    }
                }
                found
            }
            (h, s) => return Err(format!("segment {:?} cannot be followed from a {}", s, h.kind())),
        };
        match next {
            Some(h) => cur = h,
            None => return Ok(None),
        }
    }
    Ok(Some(cur))
}

/// Called after every transaction of replica `r`.
pub fn check(w: &mut World, r: usize) -> Result<(), Violation> {
    let Some(st) = w.ext.c11.as_mut() else { return Ok(()) };
    let state = st.reps[r].clone();
    let rep = &w.reps[r];
    let id = rep.cfg.id;
    let txn = rep.doc.transact();
    let live: Vec<(Handle, u32)> = live_types(&rep.roots, &txn);
    let live_map: HashMap<String, Handle> = live.iter().map(|(h, _)| (format!("{:?}", h.id()), h.clone())).collect();
    let mut sh = state.lock().unwrap();
    let mut bad: Option<(String, String)> = sh.err.take().map(|(k, d)| (k, format!("r{}: {}", id, d)));
    let mut checked = 0u64;
    let mut fired_n = 0u64;
    let mut soft: Vec<(String, String)> = vec![];
    let mut retain_only = 0u64;
    if bad.is_none() {
        let cids: Vec<String> = sh.shadows.keys().cloned().collect();
        for cid in cids {
            let Some(h) = live_map.get(&cid) else {
                // the type is gone (its removal shows in the parent's event): stop tracking it
                sh.shadows.remove(&cid);
                continue;
            };
            let actual = read_shadow(h, &txn);
            let fired = sh.fired.get(&cid).copied().unwrap_or(0);
            checked += 1;
            if fired > 1 {
                bad = Some(("fired-twice".into(), format!("r{}: the observer of {} {} fired {} times in one transaction", id, h.kind(), cid, fired)));
                break;
            }
            let shadow = sh.shadows.get(&cid).cloned().unwrap_or_default();
            if shadow != actual {
                let k = if fired == 0 { format!("changed-without-event:{}", h.kind()) } else { format!("event-wrong:{}", h.kind()) };
                bad = Some((k, format!("r{} ({:?}): content of {} {} after the transaction differs from the observer's copy maintained from events (observer fired {} times)\n   real   {:?}\n   shadow {:?}", id, rep.kind, h.kind(), cid, fired, actual, shadow)));
                break;
            }
            if fired == 1 {
                fired_n += 1;
                if sh.before.get(&cid) == Some(&actual) {
                    let cls = sh.class.get(&cid).cloned().unwrap_or_default();
                    // A retain-only delta restates attributes (format marks changed, rendering did
                    // not): accepted (DESIGN C11 F). Everything else is reported, but it does not
                    // corrupt the observer's copy, so this history keeps being monitored.
                    if cls == "retain-only" {
                        retain_only += 1;
                    } else {
                        soft.push((format!("event-without-change:{}:{}", h.kind(), cls), format!("r{}: the observer of {} {} fired although its content did not change (event content: {})", id, h.kind(), cid, cls)));
                    }
                }
            }
        }
    }
    // deep observers: at most once; every path resolves to its target; every fired type is covered
    if bad.is_none() {
        for (root, n) in sh.deep_fired.iter() {
            if *n > 1 {
                bad = Some(("deep-fired-twice".into(), format!("r{}: the deep observer of {} fired {} times in one transaction", id, root, n)));
            }
        }
    }
    if bad.is_none() {
        for (root, path, target) in sh.deep.iter() {
            let Some(rh) = live_map.get(root) else { continue };
            match resolve(rh, path, &txn) {
                Ok(Some(h)) => {
                    if &format!("{:?}", h.id()) != target {
                        bad = Some(("deep-path-wrong".into(), format!("r{}: deep event under {} reports path {:?} for target {}, but that path leads to {:?}", id, root, path, target, h.id())));
                        break;
                    }
                }
                Ok(None) => {
                    // the target was removed in the same transaction (not reachable any more) - fine if it is not live
                    if live_map.contains_key(target) {
                        bad = Some(("deep-path-wrong".into(), format!("r{}: deep event under {} reports path {:?} for the live target {}, but the path does not resolve", id, root, path, target)));
                        break;
                    }
                }
                Err(e) => {
                    bad = Some(("deep-path-wrong".into(), format!("r{}: deep event under {} for target {}: {}", id, root, target, e)));
                    break;
                }
            }
        }
    }
    if bad.is_none() {
        // every type whose own observer fired and which is still live must be reported to the deep
        // observer of its root
        let deep_targets: std::collections::HashSet<&String> = sh.deep.iter().map(|x| &x.2).collect();
        for (cid, n) in sh.fired.iter() {
            if *n > 0 && live_map.contains_key(cid) && !deep_targets.contains(cid) {
                bad = Some(("deep-misses-descendant".into(), format!("r{}: {} fired its own observer but no deep observer of a root received an event for it", id, cid)));
                break;
            }
        }
    }
    let deep_n = sh.deep.len() as u64;
    sh.fired.clear();
    sh.before.clear();
    sh.class.clear();
    sh.deep.clear();
    sh.deep_fired.clear();
    // new live types: start observing them, initialised from a read
    let mut new_handles = vec![];
    for (h, _) in live.iter() {
        let cid = format!("{:?}", h.id());
        if !sh.shadows.contains_key(&cid) {
            sh.shadows.insert(cid, read_shadow(h, &txn));
            new_handles.push(h.clone());
        }
    }
    drop(sh);
    drop(txn);
    let st = w.ext.c11.as_mut().unwrap();
    for h in new_handles {
        attach(&state, &h, &mut st.subs);
    }
    for (k, d) in soft {
        let d = format!("{} ;; log tail: {}", d, w.tail(6));
        w.soft_violation("C11", &k, d);
    }
    w.cnt.add("c11_retain_only_events_accepted", retain_only);
    w.cnt.add("c11_shadow_comparisons", checked);
    w.cnt.add("c11_events_applied", fired_n);
    w.cnt.add("c11_deep_events", deep_n);
    if let Some((k, d)) = bad {
        return viol("C11", &k, format!("{} ;; log tail: {}", d, w.tail(6)));
    }
    Ok(())
}
