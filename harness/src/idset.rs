//! C16 — IdSet / IdMap are exact set algebra. Runtime differential against a bit-set model
//! (point -> attribute set): exhaustive over a small clock universe, plus random larger instances.
use crate::util::{catch, Args, Counters, Rng};
use serde_json::json;
use std::collections::hash_map::DefaultHasher;
use std::collections::{BTreeMap, BTreeSet};
use std::hash::{Hash, Hasher};
use yrs::block::BlockRange;
use yrs::updates::decoder::Decode;
use yrs::updates::encoder::Encode;
use yrs::{ClientID, ContentAttribute, IdMap, IdSet, ID};

const U: u32 = 7;

fn cid(c: u64) -> ClientID {
    ClientID::new(c)
}

/// Builds the canonical IdSet of a bit mask by inserting maximal runs.
fn build(mask: u64, client: u64, universe: u32) -> IdSet {
    let mut s = IdSet::new();
    let mut i = 0;
    while i < universe {
        if mask >> i & 1 == 1 {
            let st = i;
            while i < universe && mask >> i & 1 == 1 {
                i += 1;
            }
            s.insert(ID::new(cid(client), st), i - st);
        } else {
            i += 1;
        }
    }
    s
}

fn mask_of(s: &IdSet, client: u64, universe: u32) -> u64 {
    let mut m = 0;
    for i in 0..universe + 3 {
        if s.contains(&ID::new(cid(client), i)) {
            m |= 1 << i;
        }
    }
    m
}

fn canon(s: &IdSet, what: &str) -> Result<(), String> {
    for (cl, ranges) in s.iter() {
        let v: Vec<_> = ranges.iter().cloned().collect();
        if v.is_empty() {
            return Err(format!("{}: empty client entry {:?} in {:?}", what, cl, s));
        }
        for w in v.windows(2) {
            if w[0].end >= w[1].start {
                return Err(format!("{}: ranges not sorted / disjoint / coalesced: {:?}", what, v));
            }
        }
        for r in &v {
            if r.start >= r.end {
                return Err(format!("{}: empty range in {:?}", what, v));
            }
        }
    }
    Ok(())
}

fn hash_of(s: &IdSet) -> u64 {
    let mut h = DefaultHasher::new();
    s.hash(&mut h);
    h.finish()
}

fn same(a: &IdSet, b: &IdSet, what: &str) -> Result<(), String> {
    if a != b {
        return Err(format!("{}: equal point sets compare unequal: {:?} vs {:?}", what, a, b));
    }
    if hash_of(a) != hash_of(b) {
        return Err(format!("{}: equal sets hash differently: {:?} vs {:?}", what, a, b));
    }
    if a.encode_v1() != b.encode_v1() || a.encode_v2() != b.encode_v2() {
        return Err(format!("{}: equal sets encode differently: {:?} vs {:?}", what, a, b));
    }
    Ok(())
}

/// Exhaustive IdSet check for first operands `a` in [from, to).
fn idset_exhaustive(from: u64, to: u64, cnt: &mut Counters) -> Result<(), String> {
    let (c1, c2) = (1u64, (1u64 << 53) - 2);
    for a in from..to {
        let sa = build(a, c1, U);
        canon(&sa, "build")?;
        if mask_of(&sa, c1, U) != a {
            return Err(format!("build/contains disagree for mask {:b}: {:?}", a, sa));
        }
        for (name, dec) in [("v1", IdSet::decode_v1(&sa.encode_v1())), ("v2", IdSet::decode_v2(&sa.encode_v2()))] {
            match dec {
                Ok(d) => same(&d, &sa, &format!("encode/decode {}", name))?,
                Err(e) => return Err(format!("IdSet {:?} does not decode ({}): {}", sa, name, e)),
            }
        }
        // from_iter with unsorted, overlapping ranges
        {
            let mut ranges = vec![];
            for i in (0..U).rev() {
                if a >> i & 1 == 1 {
                    ranges.push(i..i + 1);
                    if i + 1 < U && a >> (i + 1) & 1 == 1 {
                        ranges.push(i..i + 2);
                    }
                }
            }
            let f = IdSet::from_iter([(cid(c1), ranges)]);
            if a != 0 {
                canon(&f, "from_iter")?;
                same(&f, &sa, "from_iter")?;
            }
            cnt.inc("idset_from_iter");
        }
        for st in 0..U {
            for en in st + 1..=U {
                let rm: u64 = ((1u64 << en) - 1) & !((1u64 << st) - 1);
                let mut x = sa.clone();
                x.insert(ID::new(cid(c1), st), en - st);
                canon(&x, "insert")?;
                same(&x, &build(a | rm, c1, U), &format!("insert [{},{}) into {:b}", st, en, a))?;
                let mut y = sa.clone();
                y.remove_range(&BlockRange::new(ID::new(cid(c1), st), en - st));
                canon(&y, "remove_range")?;
                same(&y, &build(a & !rm, c1, U), &format!("remove [{},{}) from {:b}", st, en, a))?;
                // insert_range with a multi-range IdRange
                let mut z = sa.clone();
                let mut other = build(rm & 0b1010101, c1, U);
                if let Some(r) = other.get(&cid(c1)).cloned() {
                    z.insert_range(cid(c1), r);
                    canon(&z, "insert_range")?;
                    same(&z, &build(a | (rm & 0b1010101), c1, U), "insert_range")?;
                }
                other.remove_range(&BlockRange::new(ID::new(cid(c1), 0), U));
                if !other.is_empty() {
                    return Err(format!("removing the whole universe leaves {:?}", other));
                }
                cnt.add("idset_unary_ops", 3);
            }
        }
        for b in 0..(1u64 << U) {
            let sb = build(b, c1, U);
            let m = sa.merge(&sb);
            canon(&m, "merge")?;
            same(&m, &build(a | b, c1, U), &format!("merge {:b} {:b}", a, b))?;
            let d = sa.diff(&sb);
            canon(&d, "diff")?;
            same(&d, &build(a & !b, c1, U), &format!("diff {:b} {:b}", a, b))?;
            let i = sa.intersect(&sb);
            canon(&i, "intersect")?;
            same(&i, &build(a & b, c1, U), &format!("intersect {:b} {:b}", a, b))?;
            let mut mw = sa.clone();
            mw.merge_with(sb.clone());
            same(&mw, &m, "merge_with vs merge")?;
            let mut dw = sa.clone();
            dw.diff_with(&sb);
            same(&dw, &d, "diff_with vs diff")?;
            let mut iw = sa.clone();
            iw.intersect_with(&sb);
            same(&iw, &i, "intersect_with vs intersect")?;
            if let (Some(ra), Some(rb)) = (sa.get(&cid(c1)), sb.get(&cid(c1))) {
                if ra.subset_of(rb) != (a & !b == 0) {
                    return Err(format!("subset_of({:b}, {:b}) = {}", a, b, ra.subset_of(rb)));
                }
            }
            // second client (53-bit id): operations are per client
            let sb2 = build(b, c2, U);
            let m2 = sa.merge(&sb2);
            canon(&m2, "merge (2 clients)")?;
            if mask_of(&m2, c1, U) != a || mask_of(&m2, c2, U) != b {
                return Err(format!("merge across clients mixes clients: {:?}", m2));
            }
            let i2 = sa.intersect(&sb2);
            if !i2.is_empty() {
                return Err(format!("intersect of disjoint clients not empty: {:?}", i2));
            }
            let d2 = m2.diff(&sb2);
            same(&d2, &sa, "diff across clients")?;
            cnt.add("idset_binary_ops", 10);
        }
    }
    Ok(())
}

/// Construction sequences of up to 3 range insertions/removals, first op index in [from, to).
fn idset_sequences(from: u64, to: u64, cnt: &mut Counters) -> Result<(), String> {
    let mut ops: Vec<(bool, u32, u32)> = vec![];
    for ins in [true, false] {
        for st in 0..U {
            for en in st + 1..=U {
                ops.push((ins, st, en));
            }
        }
    }
    let n = ops.len() as u64;
    for i in from..to.min(n) {
        for j in 0..n {
            for k in 0..n {
                let mut s = IdSet::new();
                let mut m = 0u64;
                for idx in [i, j, k] {
                    let (ins, st, en) = ops[idx as usize];
                    let rm: u64 = ((1u64 << en) - 1) & !((1u64 << st) - 1);
                    if ins {
                        s.insert(ID::new(cid(1), st), en - st);
                        m |= rm;
                    } else {
                        s.remove_range(&BlockRange::new(ID::new(cid(1), st), en - st));
                        m &= !rm;
                    }
                }
                canon(&s, "construction sequence")?;
                same(&s, &build(m, 1, U), &format!("sequence {:?} {:?} {:?}", ops[i as usize], ops[j as usize], ops[k as usize]))?;
                cnt.inc("idset_sequences");
            }
        }
    }
    Ok(())
}

/// Delete sets as a foreign peer may write them: every sequence of up to three ranges of the universe (adjacent, overlapping,
/// contained, unsorted, repeated) written range by range in lib0 v1, and every sorted non-overlapping sequence (adjacent ranges
/// included) in v2; the decoded set must be canonical and equal - by ==, hash and encoding - to the set of the same points.
fn idset_wire(from: u64, to: u64, cnt: &mut Counters) -> Result<(), String> {
    use yrs::encoding::write::Write;
    use yrs::updates::encoder::{Encoder, EncoderV1, EncoderV2};
    let mut ranges: Vec<(u32, u32)> = vec![];
    for st in 0..U {
        for en in st + 1..=U {
            ranges.push((st, en));
        }
    }
    let n = ranges.len() as u64;
    let none = n; // "no range" marker for shorter sequences
    for i in from..to.min(n) {
        for j in 0..=n {
            for k in 0..=n {
                let seq: Vec<(u32, u32)> = [i, j, k].iter().filter(|x| **x != none).map(|x| ranges[*x as usize]).collect();
                if j == none && k != none {
                    continue; // the same sequence as (i, k, none)
                }
                let mut m = 0u64;
                for (st, en) in &seq {
                    m |= ((1u64 << en) - 1) & !((1u64 << st) - 1);
                }
                let want = build(m, 1, U);
                // lib0 v1: client count, client id, range count, (clock, len)*
                let mut e = EncoderV1::new();
                e.write_var(1u32);
                e.write_var(1u64);
                e.write_var(seq.len() as u32);
                for (st, en) in &seq {
                    e.write_var(*st);
                    e.write_var(en - st);
                }
                let got = IdSet::decode_v1(&e.to_vec()).map_err(|x| format!("wire v1: {:?} does not decode: {}", seq, x))?;
                canon(&got, &format!("decode_v1 of ranges {:?}", seq))?;
                same(&got, &want, &format!("decode_v1 of ranges {:?}", seq))?;
                cnt.inc("idset_wire_v1");
                // lib0 v2 can only express sorted, non-overlapping sequences (clocks are written as differences)
                let sorted = seq.windows(2).all(|w| w[0].1 <= w[1].0);
                if sorted {
                    let mut e = EncoderV2::new();
                    e.write_var(1u32);
                    e.reset_ds_cur_val();
                    e.write_var(1u64);
                    e.write_var(seq.len() as u32);
                    for (st, en) in &seq {
                        e.write_ds_clock(*st);
                        e.write_ds_len(en - st);
                    }
                    let got = IdSet::decode_v2(&e.to_vec()).map_err(|x| format!("wire v2: {:?} does not decode: {}", seq, x))?;
                    canon(&got, &format!("decode_v2 of ranges {:?}", seq))?;
                    same(&got, &want, &format!("decode_v2 of ranges {:?}", seq))?;
                    cnt.inc("idset_wire_v2");
                }
            }
        }
    }
    Ok(())
}

// ---- IdMap ---------------------------------------------------------------------------------

const UM: u32 = 5;
type Pm = BTreeMap<u32, BTreeSet<&'static str>>;

fn attr(name: &'static str) -> ContentAttribute<u32> {
    ContentAttribute::new(name, if name == "a" { 1 } else { 2 })
}

fn attrs_of(code: u8) -> Vec<&'static str> {
    match code {
        1 => vec!["a"],
        2 => vec!["b"],
        3 => vec!["a", "b"],
        _ => vec![],
    }
}

/// code: base-4 digits, one per clock: 0 absent, 1 {a}, 2 {b}, 3 {a,b}
fn pm_of(code: u32) -> Pm {
    let mut m = Pm::new();
    for i in 0..UM {
        let d = (code >> (2 * i)) & 3;
        if d != 0 {
            m.insert(i, attrs_of(d as u8).into_iter().collect());
        }
    }
    m
}

fn idmap_of(pm: &Pm, rng_order: bool) -> IdMap<u32> {
    let mut m = IdMap::new();
    let mut pts: Vec<(&u32, &BTreeSet<&'static str>)> = pm.iter().collect();
    if rng_order {
        pts.reverse();
    }
    for (k, attrs) in pts {
        // one attribute at a time: insert must union attribute sets
        for a in attrs.iter() {
            m.insert(BlockRange::new(ID::new(cid(1), *k), 1), vec![attr(a)]);
        }
    }
    m
}

fn pm_from_idmap(m: &IdMap<u32>) -> Result<Pm, String> {
    let mut pm = Pm::new();
    let mut last: Option<(u32, BTreeSet<String>)> = None;
    let mut prev_end: Option<u32> = None;
    for (client, ar) in m.iter() {
        if client != cid(1) {
            return Err(format!("unexpected client {:?}", client));
        }
        if ar.range.start >= ar.range.end {
            return Err(format!("IdMap not canonical: empty range {:?}", ar.range));
        }
        if let Some(pe) = prev_end {
            if ar.range.start < pe {
                return Err(format!("IdMap not canonical: ranges unsorted/overlapping at {:?}", ar.range));
            }
        }
        let names: BTreeSet<String> = ar.attrs.iter().map(|a| a.name().to_string()).collect();
        if names.is_empty() {
            return Err(format!("IdMap not canonical: stored range {:?} without attributes", ar.range));
        }
        if names.len() != ar.attrs.len() {
            return Err(format!("IdMap not canonical: duplicate attributes on {:?}", ar.range));
        }
        if let Some((e, n)) = &last {
            if *e == ar.range.start && *n == names {
                return Err(format!("IdMap not canonical: adjacent ranges with equal attributes not coalesced at clock {}", e));
            }
        }
        for k in ar.range.clone() {
            pm.insert(k, names.iter().map(|n| if n == "a" { "a" } else { "b" }).collect());
        }
        prev_end = Some(ar.range.end);
        last = Some((ar.range.end, names));
    }
    Ok(pm)
}

fn expect_pm(m: &IdMap<u32>, want: &Pm, what: &str) -> Result<(), String> {
    let got = pm_from_idmap(m).map_err(|e| format!("{}: {}", what, e))?;
    if &got != want {
        return Err(format!("{}: result {:?} but the point model gives {:?}", what, got, want));
    }
    for k in 0..UM + 2 {
        if m.contains(&ID::new(cid(1), k)) != want.contains_key(&k) {
            return Err(format!("{}: contains({}) disagrees with the model", what, k));
        }
    }
    Ok(())
}

fn idmap_exhaustive(from: u64, to: u64, cnt: &mut Counters, full: bool) -> Result<(), String> {
    use yrs::Diff;
    let total = 1u32 << (2 * UM);
    for a in (from as u32)..(to as u32).min(total) {
        let pa = pm_of(a);
        let ma = idmap_of(&pa, false);
        expect_pm(&ma, &pa, "construction")?;
        let ma_rev = idmap_of(&pa, true);
        if ma_rev != ma {
            return Err(format!("IdMap built in another order differs: {:?} vs {:?}", ma, ma_rev));
        }
        // conversions
        let as_set = ma.as_id_set();
        let into_set: IdSet = ma.clone().into();
        let mask: u64 = pa.keys().map(|k| 1u64 << k).sum();
        canon(&as_set, "as_id_set")?;
        same(&as_set, &build(mask, 1, UM), "IdMap::as_id_set")?;
        same(&into_set, &build(mask, 1, UM), "From<IdMap> for IdSet")?;
        // wire round trip
        match IdMap::<u32>::decode_v1(&ma.encode_v1()) {
            Ok(d) => expect_pm(&d, &pa, "encode/decode v1")?,
            Err(e) => return Err(format!("IdMap does not decode (v1): {}", e)),
        }
        match IdMap::<u32>::decode_v2(&ma.encode_v2()) {
            Ok(d) => expect_pm(&d, &pa, "encode/decode v2")?,
            Err(e) => return Err(format!("IdMap does not decode (v2): {}", e)),
        }
        // filter
        let fa = ma.filter(|attrs| attrs.iter().any(|x| x.name() == "a"));
        let want: Pm = pa.iter().filter(|(_, s)| s.contains("a")).map(|(k, s)| (*k, s.clone())).collect();
        expect_pm(&fa, &want, "filter(has a)")?;
        // remove / insert of every range
        for st in 0..UM {
            for en in st + 1..=UM {
                let mut x = ma.clone();
                x.remove(&BlockRange::new(ID::new(cid(1), st), en - st));
                let want: Pm = pa.iter().filter(|(k, _)| **k < st || **k >= en).map(|(k, s)| (*k, s.clone())).collect();
                expect_pm(&x, &want, &format!("remove [{},{})", st, en))?;
                let mut y = ma.clone();
                y.insert(BlockRange::new(ID::new(cid(1), st), en - st), vec![attr("b")]);
                let mut want = pa.clone();
                for k in st..en {
                    want.entry(k).or_default().insert("b");
                }
                expect_pm(&y, &want, &format!("insert [{},{}) b", st, en))?;
                // attributions over the range: covers it exactly, gaps without attributes
                let at = ma.attributions(&BlockRange::new(ID::new(cid(1), st), en - st));
                let mut pos = st;
                for r in at.iter() {
                    if r.range.start != pos || r.range.end <= r.range.start {
                        return Err(format!("attributions([{},{})) of {:?} not contiguous: {:?}", st, en, pa, at.iter().map(|x| x.range.clone()).collect::<Vec<_>>()));
                    }
                    for k in r.range.clone() {
                        let names: BTreeSet<&str> = r.attrs.iter().map(|a| a.name()).collect();
                        let want: BTreeSet<&str> = pa.get(&k).map(|s| s.iter().cloned().collect()).unwrap_or_default();
                        if names != want {
                            return Err(format!("attributions([{},{})) of {:?}: clock {} has {:?}, model {:?}", st, en, pa, k, names, want));
                        }
                    }
                    pos = r.range.end;
                }
                if pos != en {
                    return Err(format!("attributions([{},{})) of {:?} ends at {}", st, en, pa, pos));
                }
                cnt.add("idmap_unary_ops", 3);
            }
        }
        // binary operations against every other map (stride keeps the quick tier small)
        let stride = if full { 1 } else { 3 };
        let mut b = (a * 7) % stride;
        while b < total {
            let pb = pm_of(b);
            let mb = idmap_of(&pb, false);
            let mut m = ma.clone();
            m.merge_with(mb.clone());
            let mut want = pa.clone();
            for (k, s) in pb.iter() {
                want.entry(*k).or_default().extend(s.iter().cloned());
            }
            expect_pm(&m, &want, &format!("merge_with {:?} {:?}", pa, pb))?;
            let mm = IdMap::merge_many(&[ma.clone(), mb.clone(), ma.clone()]);
            expect_pm(&mm, &want, "merge_many")?;
            let mut i = ma.clone();
            i.intersect_with(&mb);
            let want_i: Pm = pa.iter().filter(|(k, _)| pb.contains_key(k)).map(|(k, s)| (*k, s.union(&pb[k]).cloned().collect())).collect();
            expect_pm(&i, &want_i, &format!("intersect_with {:?} {:?}", pa, pb))?;
            let mut d = ma.clone();
            d.diff_with(&mb);
            let want_d: Pm = pa.iter().filter(|(k, _)| !pb.contains_key(k)).map(|(k, s)| (*k, s.clone())).collect();
            expect_pm(&d, &want_d, &format!("diff_with {:?} {:?}", pa, pb))?;
            let mut d2 = ma.clone();
            d2.diff_with(&mb.as_id_set());
            expect_pm(&d2, &want_d, "diff_with(IdSet)")?;
            cnt.add("idmap_binary_ops", 5);
            b += stride;
        }
    }
    Ok(())
}

/// Random larger instances: several clients, clocks up to 200, many overlapping range operations.
fn random_instances(rng: &mut Rng, n: u64, cnt: &mut Counters) -> Result<(), String> {
    const W: u32 = 200;
    for _ in 0..n {
        let clients = [3u64, 1, (1u64 << 53) - 9];
        let mut sets: Vec<(IdSet, BTreeSet<(u64, u32)>)> = vec![];
        for _ in 0..2 {
            let mut s = IdSet::new();
            let mut model: BTreeSet<(u64, u32)> = BTreeSet::new();
            for _ in 0..rng.usize(1..40) {
                let c = clients[rng.usize(0..3)];
                let st = rng.u32(0..W);
                let len = rng.u32(1..30).min(W - st);
                if rng.u8(0..4) == 0 {
                    s.remove_range(&BlockRange::new(ID::new(cid(c), st), len));
                    for k in st..st + len {
                        model.remove(&(c, k));
                    }
                } else {
                    s.insert(ID::new(cid(c), st), len);
                    for k in st..st + len {
                        model.insert((c, k));
                    }
                }
            }
            canon(&s, "random construction")?;
            sets.push((s, model));
        }
        let check = |s: &IdSet, m: &BTreeSet<(u64, u32)>, what: &str| -> Result<(), String> {
            canon(s, what)?;
            for c in clients {
                for k in 0..W {
                    if s.contains(&ID::new(cid(c), k)) != m.contains(&(c, k)) {
                        return Err(format!("{}: point ({}, {}) disagrees with the model; set {:?}", what, c, k, s));
                    }
                }
            }
            Ok(())
        };
        let (a, ma) = &sets[0];
        let (b, mb) = &sets[1];
        check(a, ma, "random set")?;
        check(&a.merge(b), &ma.union(mb).cloned().collect(), "random merge")?;
        check(&a.diff(b), &ma.difference(mb).cloned().collect(), "random diff")?;
        check(&a.intersect(b), &ma.intersection(mb).cloned().collect(), "random intersect")?;
        let rt = IdSet::decode_v2(&a.encode_v2()).map_err(|e| e.to_string())?;
        same(&rt, a, "random encode/decode v2")?;
        cnt.add("random_instances", 1);
    }
    Ok(())
}

pub fn cmd_idset(args: &Args) -> i32 {
    let tier = args.str("tier", "quick");
    let seed = args.u64("seed", 1);
    let from = args.u64("from", 0);
    let count = args.u64("count", 128);
    let out = args.str("out", "");
    let part = args.str("part", "idset");
    let mut cnt = Counters::default();
    let res = catch(|| match part.as_str() {
        "idset" => idset_exhaustive(from, (from + count).min(1 << U), &mut cnt),
        "seq" => idset_sequences(from, from + count, &mut cnt),
        "wire" => idset_wire(from, from + count, &mut cnt),
        "idmap" => idmap_exhaustive(from, from + count, &mut cnt, tier == "thorough"),
        _ => {
            let mut rng = Rng::with_seed(seed * 1000 + from);
            random_instances(&mut rng, count, &mut cnt)
        }
    });
    let mut violations = vec![];
    match res {
        Err(p) => violations.push(json!({"prop": "C16", "kind": format!("panic:{}", p.split(' ').next().unwrap_or("")), "detail": format!("{} part, operands {}..{}: {}", part, from, from + count, p), "idx": from})),
        Ok(Err(e)) => {
            let kind = e.split(':').next().unwrap_or("").split(' ').take(3).collect::<Vec<_>>().join("-");
            violations.push(json!({"prop": "C16", "kind": format!("model-mismatch:{}", kind), "detail": format!("{} part: {}", part, e), "idx": from}))
        }
        Ok(Ok(())) => {}
    }
    let evaluations: u64 = cnt.0.values().sum();
    // every operand value is a distinct case
    let hashes: Vec<u64> = (from..from + count).map(|i| crate::util::fnv_str(&format!("{}/{}/{}", part, if part == "rand" { seed } else { 0 }, i))).collect();
    let samples = json!([{"part": part, "operands": format!("{}..{}", from, from + count), "universe_clocks": if part == "idmap" { UM } else { U }}]);
    let summary = json!({"workload": "idset", "prop": "C16", "tier": tier, "seed": seed, "from": from, "count": count,
        "evaluations": evaluations, "hashes": hashes, "counters": cnt.0, "violations": violations, "samples": samples, "harness_errors": []});
    let text = serde_json::to_string(&summary).unwrap();
    if out.is_empty() {
        println!("{}", text);
    } else {
        std::fs::write(&out, text).unwrap();
    }
    0
}
