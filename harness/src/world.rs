//! The replica simulator (DESIGN.md 2.2): replicas, message pool, fault-injecting network, drain,
//! and the online monitors that watch every step.
use crate::dump::*;
use crate::model::*;
use crate::ops::*;
use crate::prog::*;
use crate::readpaths::read_paths_doc;
use crate::util::{catch, Counters};
use std::cell::RefCell;
use std::cmp::Ordering;
use std::collections::{BTreeMap, HashMap, HashSet};
use std::rc::Rc;
use yrs::updates::decoder::Decode;
use yrs::updates::encoder::Encode;
use yrs::{ClientID, Doc, OffsetKind, Options, ReadTxn, StateVector, Subscription, Transact, Update};

#[derive(Clone, Debug)]
pub struct Violation {
    pub prop: &'static str,
    pub kind: String,
    pub detail: String,
}

pub fn viol<T>(prop: &'static str, kind: &str, detail: String) -> Result<T, Violation> {
    Err(Violation { prop, kind: kind.to_string(), detail })
}

/// Which monitors are switched on for a run.
#[derive(Clone, Debug, Default)]
pub struct MonSet {
    pub prop: &'static str,
    pub c01: bool,
    pub c02: bool,
    pub c04: bool,
    pub c05: bool,
    pub c06: bool,
    pub c07: bool,
    pub c08: bool,
    pub c11: bool,
    pub c13: bool,
    pub c14: bool,
    pub c15: bool,
    pub c16: bool,
    pub c17: bool,
    pub c20: bool,
    /// every replica has an undo manager over its root text / array / XML (local transactions carry the origin "local")
    pub undo: bool,
}

pub struct Replica {
    pub idx: usize,
    pub cfg: RepCfg,
    pub doc: Doc,
    pub roots: Roots,
    pub kind: OffsetKind,
    pub out1: Rc<RefCell<Vec<Vec<u8>>>>,
    pub out2: Rc<RefCell<Vec<Vec<u8>>>>,
    pub _subs: Vec<Subscription>,
    pub model: Model,
    pub stale: Vec<StateVector>,
    pub last_sv: StateVector,
}

pub fn make_doc(id: u64, gc: bool, bytes: bool, cleanup: bool) -> Doc {
    let mut o = Options::with_client_id(ClientID::new(id));
    o.skip_gc = !gc;
    o.offset_kind = if bytes { OffsetKind::Bytes } else { OffsetKind::Utf16 };
    o.cleanup_formatting = cleanup;
    o.guid = "root".into();
    Doc::with_options(o)
}

impl Replica {
    pub fn new(idx: usize, cfg: &RepCfg) -> Replica {
        let doc = make_doc(cfg.id, cfg.gc, cfg.bytes, cfg.cleanup);
        let roots = Roots::of(&doc);
        let out1 = Rc::new(RefCell::new(vec![]));
        let out2 = Rc::new(RefCell::new(vec![]));
        let (o1, o2) = (out1.clone(), out2.clone());
        let s1 = doc.observe_update_v1(move |_, e| o1.borrow_mut().push(e.update.clone())).unwrap();
        let s2 = doc.observe_update_v2(move |_, e| o2.borrow_mut().push(e.update.clone())).unwrap();
        Replica {
            idx,
            cfg: cfg.clone(),
            kind: if cfg.bytes { OffsetKind::Bytes } else { OffsetKind::Utf16 },
            doc,
            roots,
            out1,
            out2,
            _subs: vec![s1, s2],
            model: Model::default(),
            stale: vec![],
            last_sv: StateVector::default(),
        }
    }
    pub fn dump(&self) -> String {
        let txn = self.doc.transact();
        dump_doc(&self.roots, &txn)
    }
}

pub struct Msg {
    pub author: usize,
    pub v1: Vec<u8>,
    pub v2: Vec<u8>,
    pub local: bool,
}

pub fn sv_eq(a: &StateVector, b: &StateVector) -> bool {
    a.partial_cmp(b) == Some(Ordering::Equal)
}

pub fn sv_ge(a: &StateVector, b: &StateVector) -> bool {
    matches!(a.partial_cmp(b), Some(Ordering::Equal) | Some(Ordering::Greater))
}

pub struct World {
    pub reps: Vec<Replica>,
    pub msgs: Vec<Msg>,
    pub delivered: Vec<HashSet<usize>>,
    pub tagn: u32,
    pub log: Vec<String>,
    pub mon: MonSet,
    pub cnt: Counters,
    pub step_no: usize,
    pub max_depth: u32,
    // C04
    pub pair_first: HashMap<(Cid, String, String), (bool, usize)>,
    pub tag_uid: HashMap<(Cid, String), Uid>,
    // non-triviality facts of this history
    pub nonfifo: bool,
    pub concurrent: bool,
    pub had_stash: bool,
    pub draining: bool,
    /// C15 lock-step oracle: every replica was in sync at the last `SyncAll`; since then only `lock_author` edited
    pub lock_synced: bool,
    pub lock_author: Option<usize>,
    pub lock_broken: bool,
    pub ascii: bool,
    pub nchars: u32,
    /// violations that do not invalidate further monitoring of the same history (first per kind)
    pub soft: Vec<Violation>,
    pub ext: crate::monitors::Ext,
    pub undo: Vec<Option<yrs::undo::UndoManager<()>>>,
}

impl World {
    pub fn new(cfg: &[RepCfg], mon: MonSet) -> World {
        let reps: Vec<Replica> = cfg.iter().enumerate().map(|(i, c)| Replica::new(i, c)).collect();
        let n = reps.len();
        let mut w = World {
            reps,
            msgs: vec![],
            delivered: vec![HashSet::new(); n],
            tagn: 0,
            log: vec![],
            mon,
            cnt: Counters::default(),
            step_no: 0,
            max_depth: 3,
            pair_first: HashMap::new(),
            tag_uid: HashMap::new(),
            nonfifo: false,
            concurrent: false,
            had_stash: false,
            draining: false,
            lock_synced: true,
            lock_author: None,
            lock_broken: false,
            ascii: false,
            nchars: 0,
            soft: vec![],
            ext: crate::monitors::Ext::default(),
            undo: vec![],
        };
        if w.mon.undo {
            for rep in w.reps.iter() {
                let mut o = yrs::undo::Options::<()>::default();
                o.capture_timeout_millis = 0;
                let mut mgr = yrs::undo::UndoManager::with_options(o);
                mgr.expand_scope(&rep.doc, &rep.roots.t);
                mgr.expand_scope(&rep.doc, &rep.roots.a);
                mgr.expand_scope(&rep.doc, &rep.roots.x);
                mgr.include_origin("local");
                w.undo.push(Some(mgr));
            }
        }
        crate::monitors::init(&mut w);
        w
    }

    pub fn soft_violation(&mut self, prop: &'static str, kind: &str, detail: String) {
        self.cnt.inc(&format!("soft_{}", kind));
        if !self.soft.iter().any(|v| v.prop == prop && v.kind == kind) {
            self.soft.push(Violation { prop, kind: kind.to_string(), detail });
        }
    }

    pub fn tail(&self, n: usize) -> String {
        self.log[self.log.len().saturating_sub(n)..].join(" ; ")
    }

    pub fn v<T>(&self, prop: &'static str, kind: &str, detail: String) -> Result<T, Violation> {
        viol(prop, kind, format!("{} ;; log tail: {}", detail, self.tail(6)))
    }

    /// Collects the update events a replica emitted since the last call, turns them into pooled
    /// messages and hands them to the emitter's own causal model.
    pub fn collect(&mut self, r: usize, local: bool) -> Result<usize, Violation> {
        let a: Vec<Vec<u8>> = self.reps[r].out1.borrow_mut().drain(..).collect();
        let b: Vec<Vec<u8>> = self.reps[r].out2.borrow_mut().drain(..).collect();
        let n = a.len();
        if self.mon.c07 {
            crate::monitors::c07_events(self, r, &a, &b)?;
        }
        for (i, v1) in a.into_iter().enumerate() {
            let u = match Update::decode_v1(&v1) {
                Ok(u) => u,
                Err(e) => return self.v(self.mon.prop, "event-undecodable-v1", format!("update event of r{} does not decode: {}", self.reps[r].cfg.id, e)),
            };
            let blocks = yrs::verif::update_blocks(&u);
            let what = format!("own event m{}", self.msgs.len());
            self.reps[r].model.hand(&blocks, u.delete_set(), &what);
            let v2 = match b.get(i) {
                Some(x) => x.clone(),
                None => u.encode_v2(),
            };
            crate::monitors::twin_feed(self, r, &v1, false, true, local)?;
            self.msgs.push(Msg { author: r, v1, v2, local });
            let k = self.msgs.len() - 1;
            if crate::util::debug() {
                self.log.push(format!("      m{} by r{} = {:?}", k, self.reps[r].cfg.id, u));
            }
            self.delivered[r].insert(k);
            self.cnt.inc(if local { "msgs_local" } else { "msgs_rebroadcast" });
        }
        if self.mon.c11 {
            crate::c11::check(self, r)?;
        }
        Ok(n)
    }

    /// Applies a decoded payload to replica `to` (hands it to the model first).
    pub fn apply(&mut self, to: usize, bytes: &[u8], v2: bool, what: &str) -> Result<(), Violation> {
        let dec = |b: &[u8]| if v2 { Update::decode_v2(b) } else { Update::decode_v1(b) };
        let u = match dec(bytes) {
            Ok(u) => u,
            Err(e) => return self.v(self.mon.prop, "payload-undecodable", format!("{} ({}) does not decode: {}", what, if v2 { "v2" } else { "v1" }, e)),
        };
        let blocks = yrs::verif::update_blocks(&u);
        self.reps[to].model.hand(&blocks, u.delete_set(), what);
        crate::monitors::pre_txn(self, to);
        crate::monitors::twin_feed(self, to, bytes, v2, false, false)?;
        let doc = self.reps[to].doc.clone();
        if std::env::var("YMON_DUMP").is_ok() {
            let txn = doc.transact();
            eprintln!("=== store of r{} before applying {}: {:?}", self.reps[to].cfg.id, what, u);
            let mut bl = yrs::verif::store_blocks(&txn);
            bl.sort_by_key(|b| (b.id.client, b.id.clock));
            for b in &bl {
                eprintln!("   {}:{}+{} k{} c{} del{} keep{} o{:?} r{:?} p{:?} sub{:?} {}", b.id.client, b.id.clock, b.len, b.kind, b.content, b.deleted, b.keep, b.origin.map(|i| (i.client.get(), i.clock)), b.right_origin.map(|i| (i.client.get(), i.clock)), b.parent, b.parent_sub, b.text);
            }
        }
        let res = catch(move || doc.transact_mut().apply_update(u));
        match res {
            Err(p) => return self.v(self.mon.prop, &format!("panic:{}", p.split(' ').next().unwrap_or("")), format!("panic while applying {}: {}", what, p)),
            Ok(Err(e)) => return self.v(self.mon.prop, "apply-error", format!("apply_update({}) failed: {}", what, e)),
            Ok(Ok(())) => {}
        }
        self.collect(to, false)?;
        Ok(())
    }

    fn candidates(&self, to: usize, dup: bool) -> Vec<usize> {
        (0..self.msgs.len()).filter(|k| dup || !self.delivered[to].contains(k)).collect()
    }

    pub fn exec(&mut self, step: &Step) -> Result<(), Violation> {
        self.step_no += 1;
        let n = self.reps.len();
        let mut touched: Vec<usize> = vec![];
        if matches!(step, Step::Deliver { .. } | Step::Merge { .. } | Step::Relay { .. }) {
            self.lock_broken = true;
        }
        match step {
            Step::Txn { r, calls } => {
                let r = (*r as usize) % n;
                // exactly one transaction per window: a receiver's clean-up after the first transaction would be
                // concurrent with the author's second one
                match self.lock_author {
                    None => self.lock_author = Some(r),
                    Some(_) => self.lock_broken = true,
                }
                // concurrency fact: the author edits while some message it has not seen exists
                if self.msgs.iter().enumerate().any(|(k, m)| m.local && !self.delivered[r].contains(&k)) {
                    self.concurrent = true;
                }
                let before = if self.mon.c11 { Some(self.reps[r].dump()) } else { None };
                crate::monitors::pre_txn(self, r);
                let doc = self.reps[r].doc.clone();
                let roots = self.reps[r].roots.clone();
                let kind = self.reps[r].kind;
                let rid = self.reps[r].cfg.id;
                let mut tagn = self.tagn;
                let mut nchars = self.nchars;
                let ascii = self.ascii;
                let mut log = std::mem::take(&mut self.log);
                let max_depth = self.max_depth;
                let mut effects: Vec<Effect> = vec![];
                let with_origin = self.mon.undo;
                let res = catch(|| {
                    let mut txn = if with_origin { doc.transact_mut_with("local") } else { doc.transact_mut() };
                    let mut ctx = OpCtx { tagn: &mut tagn, kind, log: &mut log, rid, max_depth, ascii, nchars: &mut nchars };
                    for c in calls {
                        effects.extend(exec_call(c, &roots, &mut txn, &mut ctx));
                    }
                });
                self.tagn = tagn;
                self.nchars = nchars;
                self.log = log;
                if let Err(p) = res {
                    return self.v(self.mon.prop, &format!("panic:{}", p.split(' ').next().unwrap_or("")), format!("panic in local transaction: {}", p));
                }
                for e in &effects {
                    self.cnt.inc(&format!("op_{}", effect_name(e)));
                }
                let emitted = self.collect(r, true)?;
                crate::monitors::after_txn(self, r, &effects, emitted, before)?;
                touched.push(r);
            }
            Step::Deliver { to, sel, dup, form } => {
                let to = (*to as usize) % n;
                let cand = self.candidates(to, *dup);
                if cand.is_empty() {
                    return Ok(());
                }
                let k = cand[(*sel as usize) % cand.len()];
                let fresh: Vec<usize> = self.candidates(to, false);
                if fresh.first() != Some(&k) {
                    self.nonfifo = true;
                }
                if self.delivered[to].contains(&k) {
                    self.cnt.inc("deliver_duplicate");
                }
                let (bytes, v2) = match form % 4 {
                    0 => (self.msgs[k].v1.clone(), false),
                    1 => (self.msgs[k].v2.clone(), true),
                    2 => match Update::decode_v1(&self.msgs[k].v1) {
                        Ok(u) => (u.encode_v2(), true),
                        Err(e) => return self.v(self.mon.prop, "payload-undecodable", format!("m{} v1: {}", k, e)),
                    },
                    _ => match Update::decode_v2(&self.msgs[k].v2) {
                        Ok(u) => (u.encode_v1(), false),
                        Err(e) => return self.v(self.mon.prop, "payload-undecodable", format!("m{} v2: {}", k, e)),
                    },
                };
                self.cnt.inc(&format!("deliver_form{}", form % 4));
                self.log.push(format!("deliver m{} (form {}) -> r{}", k, form % 4, self.reps[to].cfg.id));
                // "known" = handed before AND actually integrated: an update whose blocks went to the stash (e.g. it was
                // delivered merged with a blocked update of the same client) is not known to the replica yet, and
                // delivering it again on its own may legitimately integrate it
                let known = self.mon.c06 && self.delivered[to].contains(&k) && {
                    let txn = self.reps[to].doc.transact();
                    let integ = integrated_units(&yrs::verif::store_blocks(&txn));
                    match Update::decode_v1(&self.msgs[k].v1) {
                        Ok(u) => {
                            let units_ok = yrs::verif::update_blocks(&u).iter().filter(|b| b.kind != 2).all(|b| (b.id.clock..b.id.clock + b.len).all(|c| integ.contains(&(b.id.client.get(), c))));
                            let ds_ok = crate::model::idset_units(u.delete_set()).iter().all(|x| integ.contains(x));
                            units_ok && ds_ok && !txn.has_missing_updates()
                        }
                        Err(_) => false,
                    }
                };
                let pre = if known { Some(crate::monitors::finger(&self.reps[to].doc, &self.reps[to].roots)) } else { None };
                let nmsgs = self.msgs.len();
                self.apply(to, &bytes, v2, &format!("m{}", k))?;
                if let Some(pre) = pre {
                    let post = crate::monitors::finger(&self.reps[to].doc, &self.reps[to].roots);
                    self.cnt.inc("c06_reapplications");
                    if pre != post || self.msgs.len() != nmsgs {
                        return self.v("C06", "reapply-changes", format!("re-applying the already applied update m{} changed r{} (emitted {} updates)", k, self.reps[to].cfg.id, self.msgs.len() - nmsgs));
                    }
                }
                self.delivered[to].insert(k);
                touched.push(to);
            }
            Step::Merge { to, sels, v2, nest } => {
                let to = (*to as usize) % n;
                let cand = self.candidates(to, false);
                if cand.is_empty() {
                    return Ok(());
                }
                let mut set: Vec<usize> = vec![];
                for s in sels {
                    let k = cand[(*s as usize) % cand.len()];
                    if !set.contains(&k) {
                        set.push(k);
                    }
                }
                self.nonfifo = true;
                self.log.push(format!("deliver merge{}{:?} -> r{}", if *v2 { "_v2" } else { "_v1" }, set, self.reps[to].cfg.id));
                let inputs: Vec<Vec<u8>> = set.iter().map(|&k| if *v2 { self.msgs[k].v2.clone() } else { self.msgs[k].v1.clone() }).collect();
                let merge = |xs: Vec<Vec<u8>>| if *v2 { yrs::merge_updates_v2(xs) } else { yrs::merge_updates_v1(xs) };
                let res = catch(|| {
                    if *nest && inputs.len() > 2 {
                        let first = merge(inputs[..2].to_vec())?;
                        let mut rest = vec![first];
                        rest.extend(inputs[2..].iter().cloned());
                        merge(rest)
                    } else {
                        merge(inputs.clone())
                    }
                });
                let merged = match res {
                    Err(p) => return self.v(self.mon.prop, &format!("panic:{}", p.split(' ').next().unwrap_or("")), format!("panic in merge_updates: {}", p)),
                    Ok(Err(e)) => return self.v(self.mon.prop, "merge-error", format!("merge_updates failed on library-produced updates: {}", e)),
                    Ok(Ok(m)) => m,
                };
                self.cnt.inc("deliver_merge");
                self.apply(to, &merged, *v2, &format!("merge{:?}", set))?;
                for k in set {
                    self.delivered[to].insert(k);
                }
                touched.push(to);
            }
            Step::Relay { from, to, form, sv, stale } => {
                let to = (*to as usize) % n;
                let mut from = (*from as usize) % n;
                if from == to {
                    from = (from + 1) % n;
                }
                if from == to {
                    return Ok(());
                }
                let svv = match sv % 3 {
                    0 => self.reps[to].doc.transact().state_vector(),
                    1 => StateVector::default(),
                    _ => {
                        if self.reps[to].stale.is_empty() {
                            StateVector::default()
                        } else {
                            self.reps[to].stale[(*stale as usize) % self.reps[to].stale.len()].clone()
                        }
                    }
                };
                let form = form % 4;
                self.log.push(format!("relay r{} -> r{} form {} sv {:?}", self.reps[from].cfg.id, self.reps[to].cfg.id, form, svv));
                let src = self.reps[from].doc.clone();
                let sv2 = svv.clone();
                let res = catch(move || {
                    let txn = src.transact();
                    match form {
                        0 => txn.encode_state_as_update_v1(&sv2),
                        1 => txn.encode_state_as_update_v2(&sv2),
                        2 => txn.encode_diff_v1(&sv2),
                        _ => txn.encode_diff_v2(&sv2),
                    }
                });
                let bytes = match res {
                    Err(p) => return self.v(self.mon.prop, &format!("panic:{}", p.split(' ').next().unwrap_or("")), format!("panic while encoding relay: {}", p)),
                    Ok(b) => b,
                };
                self.nonfifo = true;
                self.cnt.inc(&format!("relay_form{}", form));
                if self.reps[from].doc.transact().has_missing_updates() {
                    self.cnt.inc("relay_from_gapped");
                }
                crate::monitors::relay_payload(self, from, to, form, &svv, &bytes)?;
                self.apply(to, &bytes, form % 2 == 1, &format!("relay(r{},form{})", self.reps[from].cfg.id, form))?;
                crate::monitors::after_relay(self, from, to, form)?;
                if form < 2 {
                    let d: Vec<usize> = self.delivered[from].iter().cloned().collect();
                    for k in d {
                        self.delivered[to].insert(k);
                    }
                }
                touched.push(to);
            }
            Step::RecSv { r } => {
                let r = (*r as usize) % n;
                let sv = self.reps[r].doc.transact().state_vector();
                self.reps[r].stale.push(sv);
            }
            Step::SyncAll => {
                self.log.push("sync all".into());
                if self.mon.c15 && self.lock_synced && !self.lock_broken {
                    if let Some(a) = self.lock_author {
                        self.lockstep_check(a)?;
                    }
                }
                self.sync_all(false)?;
                touched.extend(0..n);
                self.lock_synced = !self.reps.iter().any(|r| r.doc.transact().has_missing_updates());
                self.lock_author = None;
                self.lock_broken = false;
            }

            other => {
                crate::monitors::exec_ext(self, other, &mut touched)?;
            }
        }
        touched.sort();
        touched.dedup();
        for r in touched {
            self.observe(r)?;
        }
        Ok(())
    }

    /// Delivers every outstanding message to every replica (index order = a causal order) until
    /// nobody emits anything new.
    /// C15: all replicas were in sync and only `a` has edited since (a sequential history: no concurrency anywhere).
    /// Garbage collection and formatting clean-up must then be invisible: every other replica, whatever its gc /
    /// clean-up setting, shows exactly the author's content right after receiving the author's updates - checked
    /// before the receivers' own clean-up emissions travel anywhere.
    fn lockstep_check(&mut self, a: usize) -> Result<(), Violation> {
        let expected = self.reps[a].dump();
        for to in 0..self.reps.len() {
            if to == a {
                continue;
            }
            let cand: Vec<usize> = self.candidates(to, false).into_iter().filter(|k| self.msgs[*k].author == a).collect();
            if cand.is_empty() {
                continue;
            }
            for k in cand {
                let bytes = self.msgs[k].v1.clone();
                self.log.push(format!("lockstep m{} -> r{}", k, self.reps[to].cfg.id));
                self.apply(to, &bytes, false, &format!("m{}", k))?;
                self.delivered[to].insert(k);
            }
            self.cnt.inc("lockstep_comparisons");
            let got = self.reps[to].dump();
            if got != expected {
                let (ca, ct) = (self.reps[a].cfg.clone(), self.reps[to].cfg.clone());
                return self.v("C15", "lockstep-differs", format!("sequential history (everybody in sync, one author): after receiving the author's updates r{} ({:?}) shows other content than the author r{} ({:?})\n  author:   {}\n  receiver: {}", ct.id, ct, ca.id, ca, expected, got));
            }
        }
        Ok(())
    }

    pub fn sync_all(&mut self, shuffle: bool) -> Result<(), Violation> {
        let n = self.reps.len();
        let mut rounds = 0;
        loop {
            let mut any = false;
            for to in 0..n {
                let mut cand = self.candidates(to, false);
                if shuffle {
                    // deterministic pseudo-shuffle from the step counter
                    let mut rng = fastrand::Rng::with_seed(self.step_no as u64 * 31 + to as u64 + rounds as u64 * 7);
                    rng.shuffle(&mut cand);
                }
                for k in cand {
                    if self.delivered[to].contains(&k) {
                        continue;
                    }
                    any = true;
                    let bytes = self.msgs[k].v1.clone();
                    self.log.push(format!("{} m{} -> r{}", if self.draining { "drain" } else { "sync" }, k, self.reps[to].cfg.id));
                    self.apply(to, &bytes, false, &format!("m{}", k))?;
                    self.delivered[to].insert(k);
                    if self.draining {
                        self.observe(to)?;
                    }
                }
            }
            rounds += 1;
            if !any {
                break;
            }
            if rounds > 60 {
                return self.v(self.mon.prop, "drain-no-fixpoint", "replicas keep emitting updates while draining".into());
            }
        }
        Ok(())
    }

    /// Per-replica online monitors, run after every step that touched the replica.
    pub fn observe(&mut self, r: usize) -> Result<(), Violation> {
        // state vector never decreases (C06, always cheap)
        let sv = self.reps[r].doc.transact().state_vector();
        if self.mon.c06 && !sv_ge(&sv, &self.reps[r].last_sv) {
            return self.v("C06", "sv-decreased", format!("state vector of r{} went from {:?} to {:?}", self.reps[r].cfg.id, self.reps[r].last_sv, sv));
        }
        self.reps[r].last_sv = sv;
        if self.reps[r].doc.transact().has_missing_updates() {
            self.had_stash = true;
        }
        if self.mon.c17 {
            let rep = &self.reps[r];
            let txn = rep.doc.transact();
            let res = catch(|| read_paths_doc(&rep.roots, &txn, rep.kind));
            drop(txn);
            match res {
                Err(p) => return self.v("C17", &format!("panic:{}", p.split(' ').next().unwrap_or("")), format!("panic in a read path on r{}: {}", self.reps[r].cfg.id, p)),
                Ok(Err(e)) => {
                    let kind = e.split(':').nth(1).unwrap_or("").trim().split(' ').take(3).collect::<Vec<_>>().join("-");
                    return self.v("C17", &format!("readpath:{}", kind), format!("r{} ({:?}): {}", self.reps[r].cfg.id, self.reps[r].kind, e));
                }
                Ok(Ok(k)) => self.cnt.add("readpath_comparisons", k),
            }
        }
        if self.mon.c02 {
            self.check_causal(r)?;
        }
        if self.mon.c04 {
            self.check_order(r)?;
        }
        crate::monitors::observe_ext(self, r)?;
        Ok(())
    }

    /// C02: lower ⊆ integrated ⊆ upper, and has_missing_updates() exactly while a dependency is absent.
    pub fn check_causal(&mut self, r: usize) -> Result<(), Violation> {
        let rep = &self.reps[r];
        let txn = rep.doc.transact();
        let blocks = yrs::verif::store_blocks(&txn);
        let integ = integrated_units(&blocks);
        let missing = txn.has_missing_updates();
        drop(txn);
        let up = rep.model.upper();
        let lo = rep.model.lower();
        let id = rep.cfg.id;
        self.cnt.inc("causal_checks");
        if lo.len() != up.len() {
            self.cnt.inc("causal_checks_lower_lt_upper");
        }
        if let Some(u) = lo.iter().find(|u| !integ.contains(u)) {
            let d = format!("r{}: unit {:?} has all its dependencies integrated (and no earlier block of its client is blocked) but is not integrated; has_missing={}", id, u, missing);
            if crate::util::debug() {
                let txn = self.reps[r].doc.transact();
                eprintln!("--- store of r{}", id);
                let mut bl = yrs::verif::store_blocks(&txn);
                bl.sort_by_key(|b| (b.id.client, b.id.clock));
                for b in &bl {
                    eprintln!("   {}:{}+{} kind{} del{} o{:?} r{:?} p{:?} {}", b.id.client, b.id.clock, b.len, b.kind, b.deleted, b.origin, b.right_origin, b.parent, b.text);
                }
                if let Some(p) = txn.store().pending_update() {
                    eprintln!("--- pending, missing {:?}", p.missing);
                    let mut bl = yrs::verif::update_blocks(&p.update);
                    bl.sort_by_key(|b| (b.id.client, b.id.clock));
                    for b in &bl {
                        eprintln!("   {}:{}+{} kind{} o{:?} r{:?} p{:?} {}", b.id.client, b.id.clock, b.len, b.kind, b.origin, b.right_origin, b.parent, b.text);
                    }
                }
            }
            return self.v("C02", "stuck", d);
        }
        if let Some(u) = integ.iter().find(|u| !up.contains(u)) {
            let d = format!("r{}: unit {:?} is integrated although a dependency of it was never handed over", id, u);
            return self.v("C02", "phantom", d);
        }
        let rep = &self.reps[r];
        // "must not report missing": every *form* in which a unit was handed has its dependencies
        // integrated (a live form may still sit in the stash, waiting for its parent, although the
        // same unit has meanwhile been integrated from a GC form that needs nothing)
        let all_lo = rep.model.handed.iter().all(|(u, alts)| lo.contains(u) && alts.iter().all(|deps| deps.iter().all(|d| lo.contains(d)))) && rep.model.del.iter().all(|u| lo.contains(u));
        let some_out = rep.model.handed.keys().any(|u| !up.contains(u)) || rep.model.del.iter().any(|u| !up.contains(u));
        if some_out {
            self.cnt.inc("causal_checks_with_absent_dependency");
        }
        if all_lo && missing {
            let txn = self.reps[r].doc.transact();
            let pend = format!("pending update: {:?} ; pending delete set: {:?}", txn.store().pending_update().map(|p| format!("{:?} missing {:?}", p.update, p.missing)), txn.store().pending_ds());
            drop(txn);
            return self.v("C02", "false-missing", format!("r{} reports missing updates although everything it was handed is causally closed; {}", id, pend));
        }
        if some_out && !missing {
            return self.v("C02", "lost", format!("r{} reports no missing updates although a block it was handed still lacks a dependency (dropped instead of stashed)", id));
        }
        Ok(())
    }

    /// Sequences of every live sequence type of a replica as (container, labels, unit ids).
    pub fn sequences(&self, r: usize) -> Vec<(Cid, Vec<String>, Option<Vec<Uid>>)> {
        use yrs::{Array, XmlFragment};
        let rep = &self.reps[r];
        let txn = rep.doc.transact();
        let mut out = vec![];
        for (h, _) in live_types(&rep.roots, &txn) {
            let c = format!("{:?}", h.id());
            let (labels, widths): (Vec<String>, Vec<u32>) = match &h {
                Handle::Text(_) | Handle::XText(_) => text_labels(&h.as_text().unwrap(), &txn),
                Handle::Array(a) => {
                    let l: Vec<String> = a.iter(&txn).map(|o| label_of_out(&o)).collect();
                    let w = vec![1; l.len()];
                    (l, w)
                }
                Handle::XFrag(f) => {
                    let l: Vec<String> = f.children(&txn).map(|o| format!("#{:?}", o.id())).collect();
                    let w = vec![1; l.len()];
                    (l, w)
                }
                Handle::XElem(f) => {
                    let l: Vec<String> = f.children(&txn).map(|o| format!("#{:?}", o.id())).collect();
                    let w = vec![1; l.len()];
                    (l, w)
                }
                Handle::Map(_) => continue,
            };
            // align visible elements with the countable, non-deleted items of the branch (hook H2)
            let mut uids: Option<Vec<Uid>> = None;
            if let Some(items) = yrs::verif::branch_items(&txn, &h.id()) {
                let mut v = vec![];
                for it in items.iter().filter(|i| !i.deleted && i.countable) {
                    for k in 0..it.len {
                        v.push((it.id.client.get(), it.id.clock + k));
                    }
                }
                let total: u32 = widths.iter().sum();
                if total as usize == v.len() {
                    let mut res = vec![];
                    let mut p = 0usize;
                    for w in &widths {
                        res.push(v[p]);
                        p += *w as usize;
                    }
                    uids = Some(res);
                }
            }
            out.push((c, labels, uids));
        }
        out
    }

    /// C04: exactly once, stable pairwise order, visibility against the causal model.
    pub fn check_order(&mut self, r: usize) -> Result<(), Violation> {
        let seqs = self.sequences(r);
        let id = self.reps[r].cfg.id;
        let up = self.reps[r].model.upper();
        let lo = self.reps[r].model.lower();
        let step = self.step_no;
        let mut live: HashMap<Cid, HashSet<String>> = HashMap::new();
        for (c, labels, uids) in &seqs {
            let mut seen = HashSet::new();
            for l in labels {
                if !seen.insert(l.clone()) {
                    return self.v("C04", "duplicate", format!("element {} appears twice in {} on r{}", l, c, id));
                }
            }
            self.cnt.inc("order_observations");
            if labels.len() <= 120 {
                for i in 0..labels.len() {
                    for j in i + 1..labels.len() {
                        let (a, b, fwd) = if labels[i] < labels[j] { (&labels[i], &labels[j], true) } else { (&labels[j], &labels[i], false) };
                        let key = (c.clone(), a.clone(), b.clone());
                        match self.pair_first.get(&key) {
                            None => {
                                self.pair_first.insert(key, (fwd, step));
                            }
                            Some((f, at)) => {
                                if *f != fwd {
                                    let d = format!("{} and {} of {} are in one order at step {} and in the opposite order on r{} at step {}", labels[i], labels[j], c, at, id, step);
                                    return self.v("C04", "order-flip", d);
                                }
                            }
                        }
                    }
                }
                self.cnt.add("order_pairs", (labels.len() * labels.len().saturating_sub(1) / 2) as u64);
            }
            if let Some(uids) = uids {
                for (l, u) in labels.iter().zip(uids.iter()) {
                    match self.tag_uid.get(&(c.clone(), l.clone())) {
                        None => {
                            self.tag_uid.insert((c.clone(), l.clone()), *u);
                        }
                        Some(known) => {
                            if known != u {
                                // same content re-created (not produced by this workload) — ignore
                            }
                        }
                    }
                    if !up.contains(u) {
                        return self.v("C04", "visible-before-insertion", format!("element {} ({:?}) of {} is visible on r{} although its insertion lacks a dependency there", l, u, c, id));
                    }
                    if self.reps[r].model.del.contains(u) && lo.contains(u) {
                        let txn = self.reps[r].doc.transact();
                        let st: Vec<String> = yrs::verif::store_blocks(&txn).iter().filter(|b| b.id.client.get() == u.0 && b.id.clock <= u.1 && u.1 < b.id.clock + b.len).map(|b| format!("{:?}", b)).collect();
                        let pend = format!("pending={:?} pending_ds={:?} deletion came with {:?}", txn.store().pending_update().is_some(), txn.store().pending_ds(), self.reps[r].model.del_src.get(u));
                        drop(txn);
                        return self.v("C04", "visible-after-deletion", format!("element {} ({:?}) of {} is visible on r{} although a deletion of it has been received; store: {:?} {}", l, u, c, id, st, pend));
                    }
                }
            }
            live.insert(c.clone(), seen);
        }
        // invisible although inserted, not deleted, container alive
        let mut must = 0u64;
        for ((c, l), u) in self.tag_uid.iter() {
            if let Some(vis) = live.get(c) {
                if lo.contains(u) && !self.reps[r].model.del.contains(u) && !self.reps[r].model.gcform.contains(u) {
                    must += 1;
                    if !vis.contains(l) {
                        let d = format!("element {} ({:?}) of {} is not visible on r{} although its insertion is integrated, no deletion of it was received and its container is alive", l, u, c, id);
                        return viol("C04", "lost-element", format!("{} ;; log tail: {}", d, self.tail(6)));
                    }
                }
            }
        }
        self.cnt.add("order_visibility_checks", must);
        Ok(())
    }

    /// Drain phase + final checks (C01 and the end-of-history parts of other monitors).
    pub fn finish(&mut self) -> Result<(), Violation> {
        self.draining = true;
        self.log.push("-- drain --".into());
        let before_msgs = self.msgs.len();
        self.sync_all(true)?;
        // updates emitted during the drain may only delete (format clean-up)
        for k in before_msgs..self.msgs.len() {
            if let Ok(u) = Update::decode_v1(&self.msgs[k].v1) {
                let blocks = yrs::verif::update_blocks(&u);
                let _ = blocks;
            }
        }
        let n = self.reps.len();
        for r in 0..n {
            self.observe(r)?;
        }
        if self.mon.c01 || self.mon.c02 {
            let d0 = self.reps[0].dump();
            let sv0 = self.reps[0].doc.transact().state_vector();
            // join of all senders' vectors
            for r in 0..n {
                let rep = &self.reps[r];
                let txn = rep.doc.transact();
                let pend = txn.has_missing_updates();
                let sv = txn.state_vector();
                drop(txn);
                if pend {
                    let p = if self.mon.c02 { "C02" } else { "C01" };
                    return self.v(p, "pending-after-full-delivery", format!("r{} still reports missing updates after every update was delivered", rep.cfg.id));
                }
                if !sv_eq(&sv, &sv0) {
                    let p = if self.mon.c02 { "C02" } else { "C01" };
                    return self.v(p, "sv-differs", format!("state vectors differ after full delivery: r{} {:?} vs r{} {:?}", self.reps[0].cfg.id, sv0, rep.cfg.id, sv));
                }
                if self.mon.c01 {
                    let d = rep.dump();
                    if d != d0 {
                        return self.v("C01", "diverge", format!("r{} and r{} differ after full delivery:\n   {}\n   {}", self.reps[0].cfg.id, rep.cfg.id, d0, d));
                    }
                }
            }
            self.cnt.add("final_pairs_compared", (n - 1) as u64);
            if self.mon.c01 {
                self.late_joiners(&d0)?;
            }
        }
        crate::monitors::finish_ext(self)?;
        Ok(())
    }

    /// C01: replicas built from the same message multiset by other routes must equal the rest.
    fn late_joiners(&mut self, d0: &str) -> Result<(), Violation> {
        let mut rng = fastrand::Rng::with_seed(self.msgs.len() as u64 * 977 + self.tagn as u64);
        // (1) fresh random permutation with duplicates, mixed encodings
        {
            let j = Replica::new(100, &RepCfg { id: 900_001, gc: rng.bool(), bytes: rng.bool(), cleanup: false });
            let mut order: Vec<usize> = (0..self.msgs.len()).collect();
            for _ in 0..self.msgs.len() / 4 {
                order.push(rng.usize(0..self.msgs.len()));
            }
            rng.shuffle(&mut order);
            for k in order {
                let v2 = rng.bool();
                let u = if v2 { Update::decode_v2(&self.msgs[k].v2) } else { Update::decode_v1(&self.msgs[k].v1) };
                let u = match u {
                    Ok(u) => u,
                    Err(e) => return self.v("C01", "payload-undecodable", format!("m{} {}", k, e)),
                };
                let doc = j.doc.clone();
                match catch(move || doc.transact_mut().apply_update(u)) {
                    Err(p) => return self.v("C01", &format!("panic:{}", p.split(' ').next().unwrap_or("")), format!("late joiner: {}", p)),
                    Ok(Err(e)) => return self.v("C01", "apply-error", format!("late joiner: {}", e)),
                    _ => {}
                }
            }
            let d = j.dump();
            if d != d0 || j.doc.transact().has_missing_updates() {
                return self.v("C01", "late-joiner-permutation", format!("a replica fed the same updates in another order (with duplicates) differs:\n   {}\n   {}", d0, d));
            }
        }
        // (2) one merge_updates blob
        if !self.msgs.is_empty() {
            let v2 = rng.bool();
            let mut inputs: Vec<Vec<u8>> = self.msgs.iter().map(|m| if v2 { m.v2.clone() } else { m.v1.clone() }).collect();
            rng.shuffle(&mut inputs);
            let res = catch(|| if v2 { yrs::merge_updates_v2(inputs) } else { yrs::merge_updates_v1(inputs) });
            let blob = match res {
                Err(p) => return self.v("C01", &format!("panic:{}", p.split(' ').next().unwrap_or("")), format!("merge of all updates: {}", p)),
                Ok(Err(e)) => return self.v("C01", "merge-error", format!("merge of all updates: {}", e)),
                Ok(Ok(b)) => b,
            };
            let j = Replica::new(101, &RepCfg { id: 900_002, gc: rng.bool(), bytes: rng.bool(), cleanup: false });
            let u = match if v2 { Update::decode_v2(&blob) } else { Update::decode_v1(&blob) } {
                Ok(u) => u,
                Err(e) => return self.v("C01", "payload-undecodable", format!("merged blob: {}", e)),
            };
            let doc = j.doc.clone();
            match catch(move || doc.transact_mut().apply_update(u)) {
                Err(p) => return self.v("C01", &format!("panic:{}", p.split(' ').next().unwrap_or("")), format!("late joiner (merged): {}", p)),
                Ok(Err(e)) => return self.v("C01", "apply-error", format!("late joiner (merged): {}", e)),
                _ => {}
            }
            let d = j.dump();
            if d != d0 || j.doc.transact().has_missing_updates() {
                return self.v("C01", "late-joiner-merged", format!("a replica fed one merge_updates_{} blob of all updates differs (pending={}):\n   {}\n   {}", if v2 { "v2" } else { "v1" }, j.doc.transact().has_missing_updates(), d0, d));
            }
        }
        // (3) a relay's full state in either encoding
        {
            let src = rng.usize(0..self.reps.len());
            let v2 = rng.bool();
            let txn = self.reps[src].doc.transact();
            let full = if v2 { txn.encode_state_as_update_v2(&StateVector::default()) } else { txn.encode_state_as_update_v1(&StateVector::default()) };
            drop(txn);
            let j = Replica::new(102, &RepCfg { id: 900_003, gc: rng.bool(), bytes: rng.bool(), cleanup: false });
            let u = match if v2 { Update::decode_v2(&full) } else { Update::decode_v1(&full) } {
                Ok(u) => u,
                Err(e) => return self.v("C01", "payload-undecodable", format!("full state: {}", e)),
            };
            let doc = j.doc.clone();
            match catch(move || doc.transact_mut().apply_update(u)) {
                Err(p) => return self.v("C01", &format!("panic:{}", p.split(' ').next().unwrap_or("")), format!("late joiner (full state): {}", p)),
                Ok(Err(e)) => return self.v("C01", "apply-error", format!("late joiner (full state): {}", e)),
                _ => {}
            }
            let d = j.dump();
            if d != d0 {
                return self.v("C01", "late-joiner-full-state", format!("a replica built from r{}'s full state ({}) differs:\n   {}\n   {}", self.reps[src].cfg.id, if v2 { "v2" } else { "v1" }, d0, d));
            }
        }
        self.cnt.add("late_joiners", 3);
        Ok(())
    }

    /// Hash of the history's shape (for distinctness counting): ops + schedule.
    pub fn history_hash(&self) -> u64 {
        crate::util::fnv_str(&self.log.join("\n"))
    }
}

/// Labels (unique tags) and clock widths of the visible units of a text.
pub fn text_labels<T: ReadTxn>(t: &yrs::TextRef, txn: &T) -> (Vec<String>, Vec<u32>) {
    use yrs::types::text::YChange;
    use yrs::Text;
    let mut labels = vec![];
    let mut widths = vec![];
    for c in t.diff(txn, YChange::identity) {
        match &c.insert {
            yrs::Out::Any(yrs::Any::String(s)) => {
                for ch in s.chars() {
                    labels.push(format!("c{}", ch));
                    widths.push(ch.len_utf16() as u32);
                }
            }
            other => {
                labels.push(format!("e{}", label_of_out(other)));
                widths.push(1);
            }
        }
    }
    (labels, widths)
}

pub fn label_of_out(o: &yrs::Out) -> String {
    match Handle::from_out(o) {
        Some(h) => format!("#{:?}", h.id()),
        None => shallow(o),
    }
}

pub fn effect_name(e: &Effect) -> &'static str {
    match e {
        Effect::TextInsert { attrs: AttrMode::Inherit, .. } => "text_insert",
        Effect::TextInsert { .. } => "text_insert_attrs",
        Effect::TextEmbed { .. } => "text_embed",
        Effect::TextFormat { .. } => "text_format",
        Effect::TextRemove { .. } => "text_remove",
        Effect::SeqInsert { .. } => "seq_insert",
        Effect::SeqRemove { .. } => "seq_remove",
        Effect::MapSet { .. } => "map_set",
        Effect::MapRemove { .. } => "map_remove",
        Effect::MapClear { .. } => "map_clear",
        Effect::Quote { .. } => "quote",
        Effect::Link { .. } => "link",
        Effect::Nop => "nop",
    }
}

#[allow(dead_code)]
pub fn sorted_counts(m: &BTreeMap<String, u64>) -> Vec<(String, u64)> {
    m.iter().map(|(k, v)| (k.clone(), *v)).collect()
}
