//! Ground truth kept outside yrs: the unit-level causal model (DESIGN.md 2.3).
//!
//! For every payload handed to a replica the model records, per unit `(client, clock)`, the
//! dependencies its carrying block names (origin, right origin, parent item, quoted ids; for a
//! non-first unit of a block the origin is the previous unit). From that it computes
//!   * `upper()`  - least fixpoint of "all dependencies present": nothing outside may be integrated;
//!   * `lower()`  - what *must* be integrated: like upper, but a unit also waits for every handed
//!                  unit of the same client with a lower clock (yrs stashes the rest of a client's
//!                  blocks behind the first blocked one), and for *every* form in which it was handed
//!                  to be ready (live and GC forms of one unit merge in the stash into the live one).
//! A correct replica satisfies lower ⊆ integrated ⊆ upper, with equality once the handed set is
//! causally closed.
use std::collections::{BTreeMap, HashMap, HashSet};
use yrs::verif::{BlockInfo, ParentInfo};
use yrs::IdSet;

pub type Uid = (u64, u32);

#[derive(Default, Clone)]
pub struct Model {
    /// handed units -> alternative dependency lists (one per distinct form in which it was handed)
    pub handed: HashMap<Uid, Vec<Vec<Uid>>>,
    /// per client: sorted clocks of handed units
    pub by_client: BTreeMap<u64, Vec<u32>>,
    /// units named by the delete sets handed so far
    pub del: HashSet<Uid>,
    /// units handed (also) in GC / Deleted form: content possibly gone
    pub gcform: HashSet<Uid>,
    /// diagnostics: which payload first brought the deletion of a unit
    pub del_src: HashMap<Uid, String>,
    dirty: bool,
}

pub fn idset_units(ds: &IdSet) -> Vec<Uid> {
    let mut out = vec![];
    for (client, ranges) in ds.iter() {
        for r in ranges.iter() {
            for k in r.start..r.end {
                out.push((client.get(), k));
            }
        }
    }
    out
}

fn uid(id: &yrs::ID) -> Uid {
    (id.client.get(), id.clock)
}

impl Model {
    pub fn hand(&mut self, blocks: &[BlockInfo], ds: &IdSet, what: &str) {
        for b in blocks {
            if b.kind == 2 {
                continue;
            }
            let c = b.id.client.get();
            for k in b.id.clock..b.id.clock + b.len {
                let mut deps: Vec<Uid> = vec![];
                if b.kind == 0 {
                    if k == b.id.clock {
                        if let Some(o) = &b.origin {
                            deps.push(uid(o));
                        }
                    } else {
                        deps.push((c, k - 1));
                    }
                    if let Some(o) = &b.right_origin {
                        deps.push(uid(o));
                    }
                    if let ParentInfo::Nested(p) = &b.parent {
                        deps.push(uid(p));
                    }
                    for q in &b.quoted {
                        deps.push(uid(q));
                    }
                }
                if b.kind == 1 || b.content == 1 {
                    // A unit handed in GC / Deleted form says "deleted" without a delete-set entry; a
                    // receiver that already holds the live form legitimately ignores it, so this is
                    // not "a deletion has been received" - but the content may be gone.
                    self.gcform.insert((c, k));
                }
                deps.sort();
                deps.dedup();
                let e = self.handed.entry((c, k)).or_default();
                if e.is_empty() {
                    let v = self.by_client.entry(c).or_default();
                    match v.binary_search(&k) {
                        Ok(_) => {}
                        Err(i) => v.insert(i, k),
                    }
                }
                if !e.contains(&deps) {
                    e.push(deps);
                }
            }
        }
        for u in idset_units(ds) {
            self.del.insert(u);
            self.del_src.entry(u).or_insert_with(|| what.to_string());
        }
        self.dirty = true;
    }

    fn ready(&self, u: &Uid, have: &HashSet<Uid>) -> bool {
        match self.handed.get(u) {
            None => false,
            Some(alts) => alts.iter().any(|deps| deps.iter().all(|d| have.contains(d))),
        }
    }

    /// A unit that was handed in several forms (live, and GC / Deleted by a replica that had collected it): when the forms
    /// meet in the stash the library keeps the most informative one, which may still be waiting although the GC form
    /// needs nothing. "Must be integrated" therefore asks for every handed form to be ready.
    fn ready_all(&self, u: &Uid, have: &HashSet<Uid>) -> bool {
        match self.handed.get(u) {
            None => false,
            Some(alts) => alts.iter().all(|deps| deps.iter().all(|d| have.contains(d))),
        }
    }

    /// Upper bound: least fixpoint of "some handed form has all its dependencies present".
    pub fn upper(&self) -> HashSet<Uid> {
        let mut have: HashSet<Uid> = HashSet::new();
        let mut rest: Vec<Uid> = self.handed.keys().cloned().collect();
        rest.sort();
        loop {
            let before = rest.len();
            let mut next = Vec::with_capacity(rest.len());
            for u in rest {
                if self.ready(&u, &have) {
                    have.insert(u);
                } else {
                    next.push(u);
                }
            }
            rest = next;
            if rest.len() == before || rest.is_empty() {
                break;
            }
        }
        have
    }

    /// Lower bound: per client only the lowest not-yet-included handed unit is a candidate.
    pub fn lower(&self) -> HashSet<Uid> {
        let mut have: HashSet<Uid> = HashSet::new();
        let mut frontier: BTreeMap<u64, usize> = self.by_client.keys().map(|c| (*c, 0usize)).collect();
        loop {
            let mut progressed = false;
            for (c, clocks) in self.by_client.iter() {
                let f = frontier.get_mut(c).unwrap();
                while *f < clocks.len() {
                    let u = (*c, clocks[*f]);
                    if self.ready_all(&u, &have) {
                        have.insert(u);
                        *f += 1;
                        progressed = true;
                    } else {
                        break;
                    }
                }
            }
            if !progressed {
                break;
            }
        }
        have
    }

    pub fn handed_units(&self) -> impl Iterator<Item = &Uid> {
        self.handed.keys()
    }
}

/// Units covered by non-Skip blocks of a store dump (hook `store_blocks`).
pub fn integrated_units(blocks: &[BlockInfo]) -> HashSet<Uid> {
    let mut out = HashSet::new();
    for b in blocks {
        if b.kind == 2 {
            continue;
        }
        for k in b.id.clock..b.id.clock + b.len {
            out.insert((b.id.client.get(), k));
        }
    }
    out
}

pub fn has_skip(blocks: &[BlockInfo]) -> bool {
    blocks.iter().any(|b| b.kind == 2)
}
