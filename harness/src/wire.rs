//! C09 (wire formats round-trip, v1/v2 carry the same information) and C10 (decoders are total on
//! untrusted bytes): corpus harvesting, value generators, mutators, decode entry points, and the
//! counting allocator that bounds memory/work per input.
use crate::dump::*;
use crate::prog::*;
use crate::runner::setup;
use crate::util::{catch, fnv, Args, Counters, Rng};
use crate::world::{make_doc, World};
use serde_json::json;
use std::alloc::{GlobalAlloc, Layout, System};
use std::collections::HashMap;
use std::io::Write;
use std::sync::atomic::{AtomicI32, AtomicUsize, Ordering};
use std::sync::Arc;
use yrs::encoding::read::Cursor;
use yrs::sync::{Awareness, AwarenessUpdate, Message, MessageReader, SyncMessage};
use yrs::updates::decoder::{Decode, DecoderV1};
use yrs::updates::encoder::Encode;
use yrs::{Any, Assoc, ContentAttribute, IdMap, IdSet, IndexedSequence, ReadTxn, Snapshot, StateVector, StickyIndex, Transact, Update};

// ---------------------------------------------------------------------------------------------
// counting allocator
// ---------------------------------------------------------------------------------------------

pub struct Counting;

static CUR: AtomicUsize = AtomicUsize::new(0);
static PEAK: AtomicUsize = AtomicUsize::new(0);
static COUNT: AtomicUsize = AtomicUsize::new(0);
/// single requests above this size are refused (0 = no limit)
static LIMIT: AtomicUsize = AtomicUsize::new(0);
static REFUSED: AtomicUsize = AtomicUsize::new(0);
static MARK_FD: AtomicI32 = AtomicI32::new(-1);

fn mark_refused(size: usize) {
    REFUSED.store(size, Ordering::Relaxed);
    let fd = MARK_FD.load(Ordering::Relaxed);
    if fd >= 0 {
        // no allocation here: digits into a stack buffer, raw write through a borrowed File
        let mut buf = [b' '; 40];
        let prefix = b"REFUSED ";
        buf[..prefix.len()].copy_from_slice(prefix);
        let mut n = size;
        let mut digits = [0u8; 24];
        let mut k = 0;
        loop {
            digits[k] = b'0' + (n % 10) as u8;
            n /= 10;
            k += 1;
            if n == 0 {
                break;
            }
        }
        for i in 0..k {
            buf[prefix.len() + i] = digits[k - 1 - i];
        }
        buf[prefix.len() + k] = b'\n';
        use std::os::fd::FromRawFd;
        let mut f = unsafe { std::fs::File::from_raw_fd(fd) };
        let _ = f.write_all(&buf[..prefix.len() + k + 1]);
        std::mem::forget(f);
    }
}

unsafe impl GlobalAlloc for Counting {
    unsafe fn alloc(&self, l: Layout) -> *mut u8 {
        let lim = LIMIT.load(Ordering::Relaxed);
        if lim != 0 && l.size() > lim {
            mark_refused(l.size());
            return std::ptr::null_mut();
        }
        let p = System.alloc(l);
        if !p.is_null() {
            let c = CUR.fetch_add(l.size(), Ordering::Relaxed) + l.size();
            PEAK.fetch_max(c, Ordering::Relaxed);
            COUNT.fetch_add(1, Ordering::Relaxed);
        }
        p
    }
    unsafe fn dealloc(&self, p: *mut u8, l: Layout) {
        System.dealloc(p, l);
        CUR.fetch_sub(l.size(), Ordering::Relaxed);
    }
    unsafe fn realloc(&self, p: *mut u8, l: Layout, new: usize) -> *mut u8 {
        let lim = LIMIT.load(Ordering::Relaxed);
        if lim != 0 && new > lim {
            mark_refused(new);
            return std::ptr::null_mut();
        }
        let q = System.realloc(p, l, new);
        if !q.is_null() {
            if new >= l.size() {
                let c = CUR.fetch_add(new - l.size(), Ordering::Relaxed) + new - l.size();
                PEAK.fetch_max(c, Ordering::Relaxed);
            } else {
                CUR.fetch_sub(l.size() - new, Ordering::Relaxed);
            }
            COUNT.fetch_add(1, Ordering::Relaxed);
        }
        q
    }
}

pub struct Meter {
    base: usize,
    count0: usize,
}

impl Meter {
    pub fn start(limit: usize) -> Meter {
        let base = CUR.load(Ordering::Relaxed);
        PEAK.store(base, Ordering::Relaxed);
        REFUSED.store(0, Ordering::Relaxed);
        LIMIT.store(limit, Ordering::Relaxed);
        Meter { base, count0: COUNT.load(Ordering::Relaxed) }
    }
    /// (peak bytes above the baseline, allocator calls, size of a refused request or 0)
    pub fn stop(self) -> (usize, usize, usize) {
        LIMIT.store(0, Ordering::Relaxed);
        (PEAK.load(Ordering::Relaxed).saturating_sub(self.base), COUNT.load(Ordering::Relaxed) - self.count0, REFUSED.load(Ordering::Relaxed))
    }
}

// ---------------------------------------------------------------------------------------------
// targets
// ---------------------------------------------------------------------------------------------

pub const TARGETS: [&str; 21] = [
    "update_v1", "update_v2", "state_vector", "snapshot_v1", "snapshot_v2", "idset_v1", "idset_v2", "idmap_v1", "idmap_v2", "any", "any_json",
    "sticky_v1", "sticky_json", "messages", "awareness", "merge_v1", "merge_v2", "diff_v1", "diff_v2", "sv_from_update_v1", "sv_from_update_v2",
];

fn tid(name: &str) -> u8 {
    TARGETS.iter().position(|t| *t == name).unwrap() as u8
}

/// Decodes `data` at entry point `t`; on success also re-encodes the value ("a value that was
/// decoded successfully can be encoded again"). Returns whether decoding succeeded.
pub fn decode_at(t: u8, data: &[u8]) -> bool {
    match TARGETS[t as usize] {
        "update_v1" => Update::decode_v1(data).map(|u| { let _ = u.encode_v1(); let _ = u.encode_v2(); let _ = u.state_vector(); let _ = format!("{:?}", u); }).is_ok(),
        "update_v2" => Update::decode_v2(data).map(|u| { let _ = u.encode_v1(); let _ = u.encode_v2(); let _ = u.state_vector(); }).is_ok(),
        "state_vector" => StateVector::decode_v1(data).map(|v| { let _ = v.encode_v1(); }).is_ok(),
        "snapshot_v1" => Snapshot::decode_v1(data).map(|v| { let _ = v.encode_v1(); let _ = v.encode_v2(); }).is_ok(),
        "snapshot_v2" => Snapshot::decode_v2(data).map(|v| { let _ = v.encode_v2(); }).is_ok(),
        "idset_v1" => IdSet::decode_v1(data).map(|v| { let _ = v.encode_v1(); let _ = v.encode_v2(); }).is_ok(),
        "idset_v2" => IdSet::decode_v2(data).map(|v| { let _ = v.encode_v2(); }).is_ok(),
        "idmap_v1" => IdMap::<u32>::decode_v1(data).map(|v| { let _ = v.encode_v1(); let _ = v.as_id_set(); }).is_ok(),
        "idmap_v2" => IdMap::<u32>::decode_v2(data).map(|v| { let _ = v.encode_v2(); }).is_ok(),
        "any" => {
            let mut c = Cursor::new(data);
            Any::decode(&mut c).map(|v| { let mut b = Vec::new(); v.encode(&mut b); let mut s = String::new(); v.to_json(&mut s); }).is_ok()
        }
        "any_json" => match std::str::from_utf8(data) {
            Ok(s) => Any::from_json(s).map(|v| { let mut b = Vec::new(); v.encode(&mut b); }).is_ok(),
            Err(_) => false,
        },
        "sticky_v1" => StickyIndex::decode_v1(data).map(|v| { let _ = v.encode_v1(); let _ = serde_json::to_string(&v); }).is_ok(),
        "sticky_json" => serde_json::from_slice::<StickyIndex>(data).map(|v| { let _ = v.encode_v1(); }).is_ok(),
        "messages" => {
            let mut d = DecoderV1::from(data);
            let mut ok = true;
            for m in MessageReader::new(&mut d).take(10_000) {
                match m {
                    Ok(m) => { let _ = m.encode_v1(); }
                    Err(_) => { ok = false; break; }
                }
            }
            ok
        }
        "awareness" => AwarenessUpdate::decode_v1(data).map(|v| { let _ = v.encode_v1(); }).is_ok(),
        "merge_v1" => yrs::merge_updates_v1([data, data]).is_ok(),
        "merge_v2" => yrs::merge_updates_v2([data, data]).is_ok(),
        "diff_v1" => yrs::diff_updates_v1(data, &[0]).is_ok(),
        "diff_v2" => yrs::diff_updates_v2(data, &[0]).is_ok(),
        "sv_from_update_v1" => yrs::encode_state_vector_from_update_v1(data).is_ok(),
        _ => yrs::encode_state_vector_from_update_v2(data).is_ok(),
    }
}

// ---------------------------------------------------------------------------------------------
// corpus
// ---------------------------------------------------------------------------------------------

pub fn read_small_dataset() -> Vec<Vec<Vec<u8>>> {
    use yrs::encoding::read::Read;
    let mut out = vec![];
    let Ok(data) = std::fs::read("/repo/assets/bench-input/small-test-dataset.bin") else { return out };
    let mut d = DecoderV1::from(data.as_slice());
    let Ok(n) = d.read_var::<u32>() else { return out };
    for _ in 0..n {
        let Ok(k) = d.read_var::<u32>() else { break };
        let mut ups = vec![];
        for _ in 0..k {
            match d.read_buf() {
                Ok(b) => ups.push(b.to_vec()),
                Err(_) => return out,
            }
        }
        if d.read_string().is_err() || Any::decode(&mut d).is_err() || Any::decode(&mut d).is_err() {
            break;
        }
        out.push(ups);
    }
    out
}

/// Valid payloads of every wire type, harvested from simulated histories and from assets/.
pub fn corpus(seed: u64, histories: usize) -> Vec<(u8, Vec<u8>)> {
    let mut out: Vec<(u8, Vec<u8>)> = vec![];
    for h in 0..histories {
        let st = setup("C01", "quick", h as u64);
        let mut rng = Rng::with_seed(fnv(format!("corpus/{}/{}", seed, h).as_bytes()));
        let prog = gen_program(&mut rng, &st.profile);
        let mut w = World::new(&prog.cfg, Default::default());
        for s in &prog.steps {
            if w.exec(s).is_err() {
                break;
            }
        }
        for m in w.msgs.iter().take(12) {
            out.push((tid("update_v1"), m.v1.clone()));
            out.push((tid("update_v2"), m.v2.clone()));
            out.push((tid("merge_v1"), m.v1.clone()));
            out.push((tid("merge_v2"), m.v2.clone()));
            out.push((tid("diff_v1"), m.v1.clone()));
            out.push((tid("diff_v2"), m.v2.clone()));
            out.push((tid("sv_from_update_v1"), m.v1.clone()));
            out.push((tid("sv_from_update_v2"), m.v2.clone()));
            out.push((tid("messages"), Message::Sync(SyncMessage::Update(m.v1.clone())).encode_v1()));
        }
        for rep in w.reps.iter() {
            let txn = rep.doc.transact();
            let sv = txn.state_vector();
            let full1 = txn.encode_state_as_update_v1(&StateVector::default());
            let full2 = txn.encode_state_as_update_v2(&StateVector::default());
            out.push((tid("update_v1"), full1.clone()));
            out.push((tid("update_v2"), full2));
            out.push((tid("state_vector"), sv.encode_v1()));
            let snap = txn.snapshot();
            out.push((tid("snapshot_v1"), snap.encode_v1()));
            out.push((tid("snapshot_v2"), snap.encode_v2()));
            out.push((tid("idset_v1"), snap.delete_set.encode_v1()));
            out.push((tid("idset_v2"), snap.delete_set.encode_v2()));
            let im = IdMap::from_set(snap.delete_set.clone(), vec![ContentAttribute::new("who", 7u32), ContentAttribute::new("when", 9u32)]);
            out.push((tid("idmap_v1"), im.encode_v1()));
            out.push((tid("idmap_v2"), im.encode_v2()));
            // attributed maps whose attribution table is longer than its name table (several values per name, several
            // attribute sets per client, adjacent and separated ranges): the shape real attribution data has
            let mut rich = IdMap::<u32>::new();
            let names = ["who", "when", "why"];
            let mut clock = [0u32; 2];
            for k in 0..rng.usize(3..9) {
                let c = k % 2;
                clock[c] += rng.u32(0..3);
                let len = rng.u32(1..4);
                let n = rng.usize(1..=2);
                let first = rng.usize(0..3);
                let attrs: Vec<ContentAttribute<u32>> = (0..n).map(|i| ContentAttribute::new(names[(first + i) % 3], rng.u32(0..3))).collect();
                rich.insert(yrs::block::BlockRange::new(yrs::block::ID::new(yrs::block::ClientID::new(1 + c as u64), clock[c]), len), attrs);
                clock[c] += len;
            }
            out.push((tid("idmap_v1"), rich.encode_v1()));
            out.push((tid("idmap_v2"), rich.encode_v2()));
            for (i, assoc) in [(0u32, Assoc::After), (1, Assoc::Before)] {
                if let Some(si) = rep.roots.t.sticky_index(&txn, i, assoc) {
                    out.push((tid("sticky_v1"), si.encode_v1()));
                    out.push((tid("sticky_json"), serde_json::to_vec(&si).unwrap_or_default()));
                }
                let si = StickyIndex::from_type(&txn, &rep.roots.a, assoc);
                out.push((tid("sticky_v1"), si.encode_v1()));
                out.push((tid("sticky_json"), serde_json::to_vec(&si).unwrap_or_default()));
            }
            out.push((tid("messages"), Message::Sync(SyncMessage::SyncStep1(sv)).encode_v1()));
            out.push((tid("messages"), Message::Sync(SyncMessage::SyncStep2(full1)).encode_v1()));
            use yrs::types::ToJson;
            let any = rep.roots.m.to_json(&txn);
            let mut b = Vec::new();
            any.encode(&mut b);
            out.push((tid("any"), b));
            let mut s = String::new();
            any.to_json(&mut s);
            out.push((tid("any_json"), s.into_bytes()));
        }
    }
    let mut aw = Awareness::new(yrs::Doc::with_client_id(5));
    aw.set_local_state_raw("{\"x\":[1,2,{\"y\":\"ż\"}]}");
    let u = aw.update().unwrap();
    out.push((tid("awareness"), u.encode_v1()));
    out.push((tid("messages"), Message::Awareness(u).encode_v1()));
    out.push((tid("messages"), Message::AwarenessQuery.encode_v1()));
    out.push((tid("messages"), Message::Auth(Some("no".into())).encode_v1()));
    out.push((tid("messages"), Message::Custom(9, vec![1, 2, 3]).encode_v1()));
    let any = yrs::any!({"a": [1, 2.5, "s", null, true], "b": {"c": "d", "e": [[], {}]}});
    let mut b = Vec::new();
    any.encode(&mut b);
    out.push((tid("any"), b));
    // Yjs-produced payloads
    for ups in read_small_dataset().iter().take(6) {
        for u in ups.iter().take(8) {
            out.push((tid("update_v1"), u.clone()));
            out.push((tid("merge_v1"), u.clone()));
        }
    }
    out
}

// ---------------------------------------------------------------------------------------------
// C10: mutation fuzz under the meter
// ---------------------------------------------------------------------------------------------

const EXTREMES: [&[u8]; 6] = [
    &[0x00],
    &[0x7f],
    &[0xff, 0x7f],
    &[0xff, 0xff, 0xff, 0xff, 0x0f],
    &[0xff, 0xff, 0xff, 0xff, 0xff, 0xff, 0xff, 0xff, 0xff, 0x01],
    &[0xff, 0xff, 0xff, 0xff, 0xff, 0xff, 0xff, 0xff, 0xff, 0xff, 0x7f],
];

pub fn mutate(rng: &mut Rng, base: &[u8], corpus: &[(u8, Vec<u8>)]) -> Vec<u8> {
    let mut d = base.to_vec();
    for _ in 0..rng.usize(1..4) {
        if d.is_empty() {
            d.push(rng.u8(..));
            continue;
        }
        let i = rng.usize(0..d.len());
        match rng.u8(0..12) {
            0 => d[i] = rng.u8(..),
            1 => d[i] ^= 1 << rng.u8(0..8),
            2 => d.truncate(i),
            3 | 4 => {
                // a count / length / clock field forced to an extreme value
                let e = EXTREMES[rng.usize(0..EXTREMES.len())];
                d.splice(i..i + 1, e.iter().cloned());
            }
            5 => {
                let j = rng.usize(i..d.len());
                let chunk: Vec<u8> = d[i..j].to_vec();
                let k = rng.usize(0..=d.len());
                d.splice(k..k, chunk);
            }
            6 => d[i] = [0u8, 1, 0x7f, 0x80, 0xff, 116, 117, 118, 119, 122, 123, 125][rng.usize(0..12)],
            7 => {
                // deep nesting: a run of "array of length 1" / "map with one empty key"
                let n = [64usize, 1000, 20_000, 150_000][rng.usize(0..4)];
                let unit: &[u8] = if rng.bool() { &[117, 1] } else { &[118, 1, 0] };
                let run: Vec<u8> = unit.iter().cycle().take(n * unit.len()).cloned().collect();
                d.splice(i..i, run);
            }
            8 => {
                // invalid UTF-8 inside (probably) a string field
                let bad: &[u8] = [&[0xc3u8, 0x28][..], &[0xff], &[0xed, 0xa0, 0x80], &[0xf8, 0x88, 0x80, 0x80, 0x80], &[0xe2, 0x82]][rng.usize(0..5)];
                let end = (i + bad.len()).min(d.len());
                d.splice(i..end, bad.iter().cloned());
            }
            9 => {
                // splice with a chunk of another payload
                let (_, other) = &corpus[rng.usize(0..corpus.len())];
                if !other.is_empty() {
                    let a = rng.usize(0..other.len());
                    let b = rng.usize(a..other.len().min(a + 64));
                    d.splice(i..i, other[a..b].iter().cloned());
                }
            }
            10 => {
                d.remove(i);
            }
            _ => d.insert(i, rng.u8(..)),
        }
    }
    d
}

/// Systematic sweep: every byte position of small payloads x a table of values, every truncation.
/// The payloads the systematic sweep works on: per entry point the (up to) 48 shortest distinct payloads of at most
/// 96 bytes, interleaved so that every entry point gets the same share of the budget.
pub fn sweep_set(corpus: &[(u8, Vec<u8>)]) -> Vec<(u8, Vec<u8>)> {
    let mut groups: Vec<Vec<Vec<u8>>> = vec![vec![]; TARGETS.len()];
    for (t, d) in corpus {
        if !d.is_empty() && d.len() <= 96 && !groups[*t as usize].contains(d) {
            groups[*t as usize].push(d.clone());
        }
    }
    for g in groups.iter_mut() {
        // short ones first, but keep a few of every length class: sort by length and take an even sample
        g.sort_by_key(|d| d.len());
        if g.len() > 48 {
            let n = g.len();
            *g = (0..48).map(|i| g[i * n / 48].clone()).collect();
        }
    }
    let mut out = vec![];
    for i in 0..48 {
        for (t, g) in groups.iter().enumerate() {
            if let Some(d) = g.get(i) {
                out.push((t as u8, d.clone()));
            }
        }
    }
    out
}

/// Case k of the sweep: mutation kind varies fastest, then the payload, then the byte position, so that a partial sweep
/// has applied every kind of mutation to the first positions of every payload.
fn sweep_input(k: u64, small: &[(u8, Vec<u8>)]) -> (u8, Vec<u8>) {
    let what = k % 8;
    let k = k / 8;
    let c = &small[(k as usize) % small.len()];
    let pos = ((k / small.len() as u64) as usize) % c.1.len();
    let mut d = c.1.clone();
    match what {
        0 => d.truncate(pos),
        1 => d[pos] = 0,
        2 => d[pos] = 0x7f,
        3 => d[pos] = 0x80,
        4 => d[pos] = 0xff,
        5 => d[pos] = d[pos].wrapping_add(1),
        6 => {
            d.splice(pos..pos + 1, EXTREMES[3].iter().cloned());
        }
        _ => {
            d.splice(pos..pos + 1, EXTREMES[5].iter().cloned());
        }
    }
    (c.0, d)
}

pub fn fuzz_input(seed: u64, idx: u64, corpus: &[(u8, Vec<u8>)], small: &[(u8, Vec<u8>)]) -> (u8, Vec<u8>) {
    if idx % 3 == 0 && !small.is_empty() {
        return sweep_input(idx / 3, small);
    }
    let mut rng = Rng::with_seed(fnv(format!("fuzz/{}/{}", seed, idx).as_bytes()));
    let (t, base) = &corpus[rng.usize(0..corpus.len())];
    // sometimes aim a payload at another entry point
    let t = if rng.u8(0..10) == 0 { rng.u8(0..TARGETS.len() as u8) } else { *t };
    (t, mutate(&mut rng, base, corpus))
}

pub fn hex(b: &[u8]) -> String {
    b.iter().map(|x| format!("{:02x}", x)).collect()
}

pub fn unhex(s: &str) -> Vec<u8> {
    (0..s.len() / 2).map(|i| u8::from_str_radix(&s[2 * i..2 * i + 2], 16).unwrap_or(0)).collect()
}

pub struct FuzzOutcome {
    pub kind: Option<String>,
    pub detail: String,
    pub decoded: bool,
    pub graceful_refusal: bool,
}

pub fn fuzz_one(t: u8, data: &[u8]) -> FuzzOutcome {
    let bound = 64 * data.len() + (1 << 20);
    let meter = Meter::start(bound);
    let res = catch(|| decode_at(t, data));
    let (peak, calls, refused) = meter.stop();
    let name = TARGETS[t as usize];
    match res {
        Err(p) => FuzzOutcome { kind: Some(format!("panic:{}:{}", name, p.split(' ').next().unwrap_or(""))), detail: format!("{} panicked on {} bytes: {}", name, data.len(), p), decoded: false, graceful_refusal: false },
        Ok(ok) => {
            if peak > bound {
                return FuzzOutcome { kind: Some(format!("memory:{}", name)), detail: format!("{}: peak allocation {} bytes for a {}-byte input (bound 64*len + 1 MiB = {})", name, peak, data.len(), bound), decoded: ok, graceful_refusal: false };
            }
            let work_bound = 64 * data.len() + 50_000;
            if calls > work_bound {
                return FuzzOutcome { kind: Some(format!("work:{}", name)), detail: format!("{}: {} allocator calls for a {}-byte input (bound {})", name, calls, data.len(), work_bound), decoded: ok, graceful_refusal: false };
            }
            if refused > 0 {
                // the request was refused only because this harness bounds single allocations; a
                // real allocator would have honoured any size it can satisfy
                return FuzzOutcome { kind: Some(format!("oversized-allocation-request:{}", name)), detail: format!("{}: a single allocation of {} bytes was requested for a {}-byte input (bound 64*len + 1 MiB = {}); the decoder survived the refusal, but only because the harness refuses", name, refused, data.len(), bound), decoded: ok, graceful_refusal: true };
            }
            FuzzOutcome { kind: None, detail: String::new(), decoded: ok, graceful_refusal: false }
        }
    }
}

pub fn cmd_fuzz(args: &Args) -> i32 {
    let tier = args.str("tier", "quick");
    let seed = args.u64("seed", 1);
    let from = args.u64("from", 0);
    let count = args.u64("count", 1000);
    let out = args.str("out", "");
    let replay_dir = args.str("replay-dir", "/verif/replays");
    let progress = args.str("progress", "");
    let mut cand: Option<std::fs::File> = None;
    if !progress.is_empty() {
        cand = std::fs::File::create(format!("{}.cand", progress)).ok();
        if let Ok(f) = std::fs::File::create(format!("{}.alloc", progress)) {
            use std::os::fd::IntoRawFd;
            MARK_FD.store(f.into_raw_fd(), Ordering::Relaxed);
        }
    }
    let corp = corpus(seed, 24);
    let small = sweep_set(&corp);
    let sweep_total: u64 = small.iter().map(|c| c.1.len() as u64 * 8).sum();
    let mut cnt = Counters::default();
    let mut hashes = vec![];
    let mut violations = vec![];
    let mut seen: Vec<String> = vec![];
    let mut samples = vec![];
    let mut evaluations = 0u64;
    for idx in from..from + count {
        let (t, data) = fuzz_input(seed, idx, &corp, &small);
        if let Some(f) = cand.as_mut() {
            use std::io::Seek;
            let _ = f.seek(std::io::SeekFrom::Start(0));
            let _ = f.set_len(0);
            let _ = write!(f, "{{\"workload\":\"fuzz\",\"prop\":\"C10\",\"idx\":{},\"target\":\"{}\",\"hex\":\"{}\"}}", idx, TARGETS[t as usize], hex(&data));
            let _ = f.flush();
        }
        if !progress.is_empty() && idx % 64 == 0 {
            let _ = std::fs::write(&progress, format!("{}\n", idx));
        }
        let o = fuzz_one(t, &data);
        evaluations += 1;
        cnt.inc(&format!("inputs_{}", TARGETS[t as usize]));
        if o.decoded {
            cnt.inc("decoded_ok");
        } else {
            cnt.inc("rejected");
        }
        if o.graceful_refusal {
            cnt.inc("oversized_request_refused_gracefully");
        }
        hashes.push(fnv(&data) ^ (t as u64) << 56);
        if samples.len() < 3 && idx % 7 == 1 {
            samples.push(json!({"target": TARGETS[t as usize], "len": data.len(), "hex": hex(&data[..data.len().min(48)]), "decoded": o.decoded}));
        }
        if let Some(k) = o.kind {
            let mut entry = json!({"prop": "C10", "kind": k, "detail": o.detail, "idx": idx});
            if !seen.contains(&k) {
                seen.push(k.clone());
                let _ = std::fs::create_dir_all(&replay_dir);
                let path = format!("{}/C10-{}-s{}-i{}.json", replay_dir, k.replace(|c: char| !c.is_alphanumeric(), "_"), seed, idx);
                let doc = json!({"workload": "fuzz", "prop": "C10", "tier": tier, "seed": seed, "idx": idx, "target": TARGETS[t as usize], "hex": hex(&data),
                    "violation": {"prop": "C10", "kind": k, "detail": o.detail}});
                if std::fs::write(&path, serde_json::to_string_pretty(&doc).unwrap()).is_ok() {
                    entry["replay"] = json!(path);
                }
            }
            if crate::util::room(&violations, entry["kind"].as_str().unwrap_or("")) {
                violations.push(entry);
            }
        }
    }
    cnt.max("max_sweep_cases_for_a_full_pass", sweep_total);
    cnt.max("max_sweep_payloads", small.len() as u64);
    cnt.max("max_sweep_case_index_reached", (from + count) / 3);
    let summary = json!({"workload": "fuzz", "prop": "C10", "tier": tier, "seed": seed, "from": from, "count": count,
        "evaluations": evaluations, "hashes": hashes, "counters": cnt.0, "violations": violations, "samples": samples, "harness_errors": []});
    let text = serde_json::to_string(&summary).unwrap();
    if out.is_empty() {
        println!("{}", text);
    } else {
        std::fs::write(&out, text).unwrap();
    }
    0
}

pub fn replay_fuzz(doc: &serde_json::Value) -> i32 {
    let t = doc["target"].as_str().unwrap_or("update_v1");
    let data = unhex(doc["hex"].as_str().unwrap_or(""));
    println!("target {} input {} bytes", t, data.len());
    let o = fuzz_one(tid(t), &data);
    match o.kind {
        Some(k) => {
            println!("REPLAY violation property=C10 kind={}\n{}", k, o.detail);
            1
        }
        None => {
            println!("REPLAY no violation (decoded: {})", o.decoded);
            0
        }
    }
}

// ---------------------------------------------------------------------------------------------
// C09: round trips
// ---------------------------------------------------------------------------------------------

fn fresh_dump(bytes: &[u8], v2: bool) -> Result<String, String> {
    let doc = make_doc(4242, false, false, false);
    let roots = Roots::of(&doc);
    let u = if v2 { Update::decode_v2(bytes) } else { Update::decode_v1(bytes) }.map_err(|e| format!("decode: {}", e))?;
    let d2 = doc.clone();
    match catch(move || d2.transact_mut().apply_update(u)) {
        Err(p) => return Err(format!("panic: {}", p)),
        Ok(Err(e)) => return Err(format!("apply: {}", e)),
        _ => {}
    }
    let txn = doc.transact();
    let mut sv: Vec<(u64, u32)> = txn.state_vector().iter().map(|(c, k)| (c.get(), *k)).filter(|x| x.1 > 0).collect();
    sv.sort();
    Ok(format!("{} pending={} sv={:?} ds={:?} blocks={}", dump_doc(&roots, &txn), txn.has_missing_updates(), sv, txn.snapshot().delete_set, yrs::verif::store_blocks(&txn).iter().filter(|b| b.kind != 2).map(|b| b.len as u64).sum::<u64>()))
}

type V = (String, String);

/// Canonical structural rendering of an update (hook H1): clients sorted, leading Skip ranges
/// dropped (the encoder does not write them: they carry nothing), every field of every block.
pub fn ustr(u: &Update) -> String {
    let mut s = String::new();
    let mut last_client = None;
    let mut leading = true;
    for b in yrs::verif::update_blocks(u) {
        if last_client != Some(b.id.client) {
            last_client = Some(b.id.client);
            leading = true;
        }
        if b.kind == 2 && leading {
            continue;
        }
        leading = false;
        // content rendering: a decoded sub-document gets a fresh random client id, and maps inside
        // Any values print in hash order - neither is part of the value
        let mut text = b.text.clone();
        if b.content == 9 {
            // (its options travel as a map, written in hash order: bytes are not stable either)
            if let Some(p) = text.find("guid:") {
                text = format!("~{}", &text[p..]);
            }
        }
        if text.contains('{') {
            let mut chars: Vec<char> = text.chars().collect();
            chars.sort();
            text = format!("~{}", chars.into_iter().collect::<String>());
        }
        s.push_str(&format!("[{} {}#{} len{} o{:?} r{:?} p{:?} k{:?} c{} {}]", b.kind, b.id.client.get(), b.id.clock, b.len, b.origin, b.right_origin, b.parent, b.parent_sub, b.content, text));
    }
    s.push_str(&format!(" ds{:?}", u.delete_set()));
    s
}

trait Canon {
    fn canon(&self) -> String;
}
impl Canon for Update {
    fn canon(&self) -> String {
        ustr(self)
    }
}
impl Canon for StateVector {
    fn canon(&self) -> String {
        let mut v: Vec<(u64, u32)> = self.iter().map(|(c, k)| (c.get(), *k)).collect();
        v.sort();
        format!("{:?}", v)
    }
}
impl Canon for Snapshot {
    fn canon(&self) -> String {
        format!("{} {:?}", self.state_map.canon(), self.delete_set)
    }
}
impl Canon for IdSet {
    fn canon(&self) -> String {
        format!("{:?}", self)
    }
}
impl Canon for IdMap<u32> {
    fn canon(&self) -> String {
        let mut s = String::new();
        for (c, r) in self.iter() {
            let mut names: Vec<String> = r.attrs.iter().map(|a| format!("{}={}", a.name(), a.value())).collect();
            names.sort();
            s.push_str(&format!("[{} {:?} {:?}]", c.get(), r.range, names));
        }
        s
    }
}
impl Canon for StickyIndex {
    fn canon(&self) -> String {
        format!("{:?}", self)
    }
}

fn err<T>(k: &str, d: String) -> Result<T, V> {
    Err((k.to_string(), d))
}

/// Round trip of one payload of the given wire type.
pub fn roundtrip(t: u8, b: &[u8], cnt: &mut Counters) -> Result<(), V> {
    let name = TARGETS[t as usize];
    cnt.inc(&format!("roundtrip_{}", name));
    macro_rules! rt {
        ($ty:ty, $dec:ident, $enc:ident) => {{
            let x1 = <$ty>::$dec(b).map_err(|e| (format!("undecodable:{}", name), format!("library-produced {} does not decode: {}", name, e)))?;
            let b2 = x1.$enc();
            let x2 = <$ty>::$dec(&b2).map_err(|e| (format!("reencoded-undecodable:{}", name), format!("re-encoded {} does not decode: {}", name, e)))?;
            if x1.canon() != x2.canon() {
                return err(&format!("roundtrip-differs:{}", name), format!("decode(encode(x)) != x for {}\n   x  {}\n   x' {}", name, x1.canon(), x2.canon()));
            }
            if x2.$enc() != b2 && !x1.canon().contains('~') {
                return err(&format!("encoding-unstable:{}", name), format!("{}: encode(decode(encode(x))) differs from encode(x)", name));
            }
            x1
        }};
    }
    match name {
        "update_v1" | "update_v2" => {
            let v2 = name == "update_v2";
            let x1 = if v2 { rt!(Update, decode_v2, encode_v2) } else { rt!(Update, decode_v1, encode_v1) };
            // cross encoding: v1 -> v2 -> v1 keeps the structure and the effect
            let other = if v2 { x1.encode_v1() } else { x1.encode_v2() };
            let y = if v2 { Update::decode_v1(&other) } else { Update::decode_v2(&other) }.map_err(|e| (format!("cross-undecodable:{}", name), format!("{} re-encoded in the other lib0 version does not decode: {}", name, e)))?;
            if ustr(&y) != ustr(&x1) {
                return err(&format!("cross-differs:{}", name), format!("re-encoding a decoded {} in the other lib0 version changes it\n   before {}\n   after  {}", name, ustr(&x1), ustr(&y)));
            }
            let back = if v2 { y.encode_v2() } else { y.encode_v1() };
            let same = if v2 { x1.encode_v2() } else { x1.encode_v1() };
            if back != same && !ustr(&x1).contains('~') {
                return err(&format!("cross-unstable:{}", name), format!("{} -> other version -> back gives other bytes", name));
            }
            let (da, db) = (fresh_dump(b, v2), fresh_dump(&other, !v2));
            cnt.inc("effect_comparisons");
            match (da, db) {
                (Ok(a), Ok(c)) => {
                    if a != c {
                        return err(&format!("effect-differs:{}", name), format!("applying the v1 and the v2 form of the same update gives different documents\n   {}\n   {}", a, c));
                    }
                }
                (a, c) => return err(&format!("effect-error:{}", name), format!("applying the update failed: {:?} / {:?}", a.err(), c.err())),
            }
        }
        "state_vector" => {
            rt!(StateVector, decode_v1, encode_v1);
        }
        "snapshot_v1" => {
            let s = rt!(Snapshot, decode_v1, encode_v1);
            if Snapshot::decode_v2(&s.encode_v2()).ok().as_ref() != Some(&s) {
                return err("cross-differs:snapshot", format!("snapshot does not survive v2: {:?}", s));
            }
        }
        "snapshot_v2" => {
            rt!(Snapshot, decode_v2, encode_v2);
        }
        "idset_v1" => {
            let s = rt!(IdSet, decode_v1, encode_v1);
            if IdSet::decode_v2(&s.encode_v2()).ok().as_ref() != Some(&s) {
                return err("cross-differs:idset", format!("delete set does not survive v2: {:?}", s));
            }
        }
        "idset_v2" => {
            rt!(IdSet, decode_v2, encode_v2);
        }
        "idmap_v1" => {
            rt!(IdMap<u32>, decode_v1, encode_v1);
        }
        "idmap_v2" => {
            rt!(IdMap<u32>, decode_v2, encode_v2);
        }
        "any" => {
            let mut c = Cursor::new(b);
            let x = Any::decode(&mut c).map_err(|e| ("undecodable:any".to_string(), e.to_string()))?;
            any_roundtrip(&x)?;
        }
        "sticky_v1" => {
            let s = rt!(StickyIndex, decode_v1, encode_v1);
            let j = serde_json::to_string(&s).map_err(|e| ("sticky-json".to_string(), e.to_string()))?;
            let back: StickyIndex = serde_json::from_str(&j).map_err(|e| ("sticky-json".to_string(), format!("{} does not parse back: {}", j, e)))?;
            if back != s {
                return err("roundtrip-differs:sticky_json", format!("{:?} -> {} -> {:?}", s, j, back));
            }
        }
        "messages" => {
            let mut d = DecoderV1::from(b);
            for m in MessageReader::new(&mut d) {
                let m = m.map_err(|e| ("undecodable:messages".to_string(), e.to_string()))?;
                message_roundtrip(&m)?;
            }
        }
        "awareness" => {
            let u = AwarenessUpdate::decode_v1(b).map_err(|e| ("undecodable:awareness".to_string(), e.to_string()))?;
            let back = AwarenessUpdate::decode_v1(&u.encode_v1()).map_err(|e| ("reencoded-undecodable:awareness".to_string(), e.to_string()))?;
            if back != u {
                return err("roundtrip-differs:awareness", format!("{:?} vs {:?}", u, back));
            }
        }
        _ => {}
    }
    Ok(())
}

fn any_eq(a: &Any, b: &Any) -> bool {
    match (a, b) {
        (Any::Number(x), Any::Number(y)) => (x.is_nan() && y.is_nan()) || x == y,
        (Any::Array(x), Any::Array(y)) => x.len() == y.len() && x.iter().zip(y.iter()).all(|(p, q)| any_eq(p, q)),
        (Any::Map(x), Any::Map(y)) => x.len() == y.len() && x.iter().all(|(k, v)| y.get(k).map(|w| any_eq(v, w)).unwrap_or(false)),
        _ => a == b,
    }
}

pub fn any_roundtrip(x: &Any) -> Result<(), V> {
    let mut b = Vec::new();
    x.encode(&mut b);
    let mut c = Cursor::new(b.as_slice());
    let y = Any::decode(&mut c).map_err(|e| ("reencoded-undecodable:any".to_string(), format!("{:?}: {}", x, e)))?;
    if !any_eq(x, &y) {
        return err("roundtrip-differs:any", format!("Any {:?} decodes back as {:?}", x, y));
    }
    // as update content (embed in text travels as JSON text in v1, as Any in v2 - only JSON-faithful values are expected to survive both)
    Ok(())
}

pub fn message_roundtrip(m: &Message) -> Result<(), V> {
    let bytes = m.encode_v1();
    let mut d = DecoderV1::from(bytes.as_slice());
    let back: Vec<_> = MessageReader::new(&mut d).collect();
    if back.len() != 1 || back[0].as_ref().ok() != Some(m) {
        return err(&format!("roundtrip-differs:message:{}", match m { Message::Sync(_) => "sync", Message::Auth(_) => "auth", Message::AwarenessQuery => "awareness-query", Message::Awareness(_) => "awareness", Message::Custom(t, _) => if *t >= 128 { "custom-tag-ge-128" } else { "custom" } }), format!("message {:?} decodes back as {:?}", m, back));
    }
    Ok(())
}

fn gen_any(rng: &mut Rng, depth: u32) -> Any {
    match rng.u8(0..if depth > 3 { 9 } else { 12 }) {
        0 => Any::Null,
        1 => Any::Undefined,
        2 => Any::Bool(rng.bool()),
        3 => Any::Number([0.0, -0.0, 1.0, -1.0, 0.5, 1e300, -1e-300, f64::NAN, f64::INFINITY, f64::NEG_INFINITY, 2147483647.0, 2147483648.0, -2147483649.0, 9007199254740991.0, 16777217.0, 0.1][rng.usize(0..16)]),
        4 => Any::Number(rng.i64(-100000..100000) as f64),
        5 => Any::Number(rng.f64() * 1e6),
        6 => Any::BigInt([0, 1, -1, i64::MAX, i64::MIN, 1 << 53][rng.usize(0..6)]),
        7 => Any::String(Arc::from(["", "a", "ż", "日本語", "😀😀", "\u{0}", "\"\\\n", "\u{fffd}"][rng.usize(0..8)])),
        8 => Any::Buffer(Arc::from((0..rng.usize(0..6)).map(|_| rng.u8(..)).collect::<Vec<u8>>())),
        9 | 10 => Any::Array(Arc::from((0..rng.usize(0..4)).map(|_| gen_any(rng, depth + 1)).collect::<Vec<Any>>())),
        _ => {
            let mut m = HashMap::new();
            for _ in 0..rng.usize(0..4) {
                m.insert(["", "k", "ключ", "a b"][rng.usize(0..4)].to_string(), gen_any(rng, depth + 1));
            }
            Any::Map(Arc::new(m))
        }
    }
}

/// Values that survive a JSON text channel: null, bool, finite numbers, strings, arrays/maps thereof.
fn json_faithful(a: &Any) -> bool {
    match a {
        Any::Null | Any::Bool(_) | Any::String(_) => true,
        Any::Number(n) => n.is_finite() && !(*n == 0.0 && n.is_sign_negative()),
        Any::Array(v) => v.iter().all(json_faithful),
        Any::Map(m) => m.values().all(json_faithful),
        _ => false,
    }
}

fn varint(mut n: u64, out: &mut Vec<u8>) {
    while n >= 0x80 {
        out.push((n as u8 & 0x7f) | 0x80);
        n >>= 7;
    }
    out.push(n as u8);
}

/// Hand-written lib0 v1 updates with content kinds only foreign peers produce: one item under the
/// root array "a" (or a GC / Skip range), built by an independent writer.
fn foreign_update(rng: &mut Rng) -> (String, Vec<u8>) {
    let client: u64 = [1, 255, 1 << 32, (1 << 53) - 1][rng.usize(0..4)];
    let clock: u64 = [0, 5, 300, u32::MAX as u64 - 40][rng.usize(0..4)];
    let mut b = vec![];
    varint(1, &mut b); // one client
    varint(1, &mut b); // one block
    varint(client, &mut b);
    varint(clock, &mut b);
    let kind = rng.u8(0..6);
    let what;
    match kind {
        0 => {
            what = "gc";
            b.push(0);
            varint(rng.u64(1..20), &mut b);
        }
        1 => {
            what = "skip";
            b.push(10);
            varint(rng.u64(1..20), &mut b);
        }
        _ => {
            // item without origins: info = content ref, then parent info (root "a")
            let (r, name): (u8, &str) = match kind {
                2 => (3, "binary"),
                3 => (2, "json"),
                4 => (1, "deleted"),
                _ => (8, "any"),
            };
            what = name;
            b.push(r);
            varint(1, &mut b); // parent is a root name
            varint(1, &mut b);
            b.push(b'a');
            match r {
                3 => {
                    let n = rng.usize(0..9);
                    varint(n as u64, &mut b);
                    for _ in 0..n {
                        b.push(rng.u8(..));
                    }
                }
                2 => {
                    let n = rng.usize(1..4);
                    varint(n as u64, &mut b);
                    for i in 0..n {
                        let s = ["1", "\"x\"", "{\"a\":[1,2]}", "null", "undefined"][(i + rng.usize(0..5)) % 5];
                        varint(s.len() as u64, &mut b);
                        b.extend_from_slice(s.as_bytes());
                    }
                }
                1 => varint(rng.u64(1..9), &mut b),
                _ => {
                    let n = rng.usize(1..4);
                    varint(n as u64, &mut b);
                    for _ in 0..n {
                        let any = gen_any(rng, 3);
                        any.encode(&mut b);
                    }
                }
            }
        }
    }
    varint(0, &mut b); // empty delete set
    (what.to_string(), b)
}

pub fn cmd_roundtrip(args: &Args) -> i32 {
    let tier = args.str("tier", "quick");
    let seed = args.u64("seed", 1);
    let from = args.u64("from", 0);
    let count = args.u64("count", 100);
    let out = args.str("out", "");
    let replay_dir = args.str("replay-dir", "/verif/replays");
    let progress = args.str("progress", "");
    let part = args.str("part", "harvest");
    let mut cnt = Counters::default();
    let mut hashes = vec![];
    let mut violations = vec![];
    let mut samples = vec![];
    let mut seen: Vec<String> = vec![];
    let mut evaluations = 0u64;
    let dataset = if part == "yjs" { read_small_dataset() } else { vec![] };
    for idx in from..from + count {
        if !progress.is_empty() {
            let _ = std::fs::write(&progress, format!("{}\n", idx));
        }
        let mut rng = Rng::with_seed(fnv(format!("rt/{}/{}/{}", seed, part, idx).as_bytes()));
        let mut found: Vec<(String, String, String)> = vec![]; // kind, detail, hex
        match part.as_str() {
            "harvest" => {
                // every payload of one simulated history (corpus of one history = idx)
                let corp = corpus(seed * 1_000_003 + idx, 1);
                for (t, b) in corp.iter() {
                    evaluations += 1;
                    hashes.push(fnv(b) ^ (*t as u64) << 56);
                    match catch(|| roundtrip(*t, b, &mut cnt)) {
                        Err(p) => found.push((format!("panic:{}", p.split(' ').next().unwrap_or("")), format!("round trip of a {} panicked: {}", TARGETS[*t as usize], p), format!("{}:{}", TARGETS[*t as usize], hex(b)))),
                        Ok(Err((k, d))) => found.push((k, d, format!("{}:{}", TARGETS[*t as usize], hex(b)))),
                        Ok(Ok(())) => {}
                    }
                }
                if samples.len() < 2 && !corp.is_empty() {
                    samples.push(json!({"part": part, "history": idx, "payloads": corp.len(), "first": {"type": TARGETS[corp[0].0 as usize], "hex": hex(&corp[0].1[..corp[0].1.len().min(40)])}}));
                }
            }
            "values" => {
                for _ in 0..50 {
                    evaluations += 1;
                    let x = gen_any(&mut rng, 0);
                    let mut b = Vec::new();
                    x.encode(&mut b);
                    hashes.push(fnv(&b));
                    cnt.inc("generated_any");
                    if let Err((k, d)) = any_roundtrip(&x) {
                        found.push((k, d, format!("any:{}", hex(&b))));
                    }
                }
                // messages incl. custom tags, state vectors with extreme ids / clocks
                let msgs = vec![
                    // tags 0..=3 are the built-in messages
                    Message::Custom(rng.u8(4..=255), (0..rng.usize(0..5)).map(|_| rng.u8(..)).collect()),
                    Message::Custom([4, 127, 128, 200, 255][rng.usize(0..5)], vec![1]),
                    Message::Auth(if rng.bool() { None } else { Some("ż".into()) }),
                    Message::AwarenessQuery,
                    Message::Sync(SyncMessage::SyncStep1(StateVector::default())),
                ];
                for m in msgs {
                    evaluations += 1;
                    cnt.inc("generated_messages");
                    hashes.push(fnv(&m.encode_v1()));
                    if let Err((k, d)) = message_roundtrip(&m) {
                        found.push((k, d, format!("messages:{}", hex(&m.encode_v1()))));
                    }
                }
                let mut sv = StateVector::default();
                for _ in 0..rng.usize(0..4) {
                    sv.set_max(yrs::ClientID::new([1, 255, 256, (1u64 << 53) - 1, 1 << 32][rng.usize(0..5)]), [0, 1, 127, 128, u32::MAX, u32::MAX - 1][rng.usize(0..6)]);
                }
                evaluations += 1;
                cnt.inc("generated_state_vectors");
                hashes.push(fnv(&sv.encode_v1()));
                match StateVector::decode_v1(&sv.encode_v1()) {
                    Ok(back) if back == sv => {}
                    other => found.push(("roundtrip-differs:state_vector".into(), format!("{:?} -> {:?}", sv, other), format!("state_vector:{}", hex(&sv.encode_v1())))),
                }
                // sub-document options: bare value (v1 + v2) and carried by a sub-document inside an update
                {
                    use yrs::{Map, Options, OffsetKind};
                    let mut o = Options::default();
                    o.guid = format!("g{}", rng.u32(..)).into();
                    o.collection_id = [None, Some(Arc::from("c")), Some(Arc::from("колл"))][rng.usize(0..3)].clone();
                    o.offset_kind = if rng.bool() { OffsetKind::Bytes } else { OffsetKind::Utf16 };
                    o.skip_gc = rng.bool();
                    o.auto_load = rng.bool();
                    o.should_load = rng.bool();
                    let show = |guid: String, cid: Option<Arc<str>>, k: OffsetKind, skip_gc: bool, auto_load: bool| format!("guid={} collection={:?} offsets={:?} skip_gc={} auto_load={}", guid, cid, k, skip_gc, auto_load);
                    let want = show(o.guid.to_string(), o.collection_id.clone(), o.offset_kind, o.skip_gc, o.auto_load);
                    for v2 in [false, true] {
                        evaluations += 1;
                        cnt.inc("generated_doc_options");
                        let b = if v2 { o.encode_v2() } else { o.encode_v1() };
                        hashes.push(fnv(&b) ^ (v2 as u64));
                        match if v2 { Options::decode_v2(&b) } else { Options::decode_v1(&b) } {
                            Ok(back) => {
                                let got = show(back.guid.to_string(), back.collection_id.clone(), back.offset_kind, back.skip_gc, back.auto_load);
                                if got != want {
                                    found.push(("roundtrip-differs:doc_options".into(), format!("Options {} -> {} ({})", want, got, if v2 { "v2" } else { "v1" }), format!("doc_options:{}", hex(&b))));
                                }
                            }
                            Err(e) => found.push(("roundtrip-error:doc_options".into(), format!("Options {} cannot be decoded again: {}", want, e), format!("doc_options:{}", hex(&b)))),
                        }
                    }
                    // the same options travelling with a sub-document to a peer
                    let a = make_doc(1, false, false, false);
                    let ra = Roots::of(&a);
                    ra.m.insert(&mut a.transact_mut(), "sub", yrs::Doc::with_options(o.clone()));
                    let (u1, u2) = {
                        let txn = a.transact();
                        (txn.encode_state_as_update_v1(&StateVector::default()), txn.encode_state_as_update_v2(&StateVector::default()))
                    };
                    for (v2, bytes) in [(false, &u1), (true, &u2)] {
                        evaluations += 1;
                        cnt.inc("generated_subdoc_transfers");
                        let b = make_doc(2, false, false, false);
                        let rb = Roots::of(&b);
                        let u = if v2 { Update::decode_v2(bytes) } else { Update::decode_v1(bytes) };
                        let got = match u {
                            Err(e) => format!("decode error: {}", e),
                            Ok(u) => {
                                // (the transaction must be gone before the next one is opened)
                                let applied = b.transact_mut().apply_update(u);
                                match applied {
                                    Err(e) => format!("apply error: {}", e),
                                    Ok(()) => {
                                        let sub = rb.m.get(&b.transact(), "sub");
                                        match sub {
                                            Some(yrs::Out::YDoc(d)) => show(d.guid().to_string(), d.collection_id(), d.offset_kind(), d.skip_gc(), d.auto_load()),
                                            other => format!("no sub-document: {:?}", other.map(|_| "other value")),
                                        }
                                    }
                                }
                            }
                        };
                        if got != want {
                            found.push(("subdoc-options-differ".into(), format!("a sub-document created with {} arrives at a peer ({}) as {}", want, if v2 { "v2" } else { "v1" }, got), format!("update:{}", hex(bytes))));
                        }
                    }
                }
                // sticky indexes of every scope kind
                for si in [
                    StickyIndex::from_id(yrs::ID::new(yrs::ClientID::new((1u64 << 53) - 1), u32::MAX - 1), Assoc::Before),
                    StickyIndex::from_id(yrs::ID::new(yrs::ClientID::new(1), 0), Assoc::After),
                    StickyIndex::new(yrs::IndexScope::Nested(yrs::ID::new(yrs::ClientID::new(300), 77)), Assoc::After),
                    StickyIndex::new(yrs::IndexScope::Root(Arc::from("ключ")), Assoc::Before),
                ] {
                    evaluations += 1;
                    cnt.inc("generated_sticky_indexes");
                    let b = si.encode_v1();
                    hashes.push(fnv(&b) ^ rng.u64(0..4));
                    if let Err((k, d)) = roundtrip(tid("sticky_v1"), &b, &mut cnt) {
                        found.push((k, d, format!("sticky_v1:{}", hex(&b))));
                    }
                }
            }
            "jsonchan" => {
                // values that lib0 v1 ships as JSON text (embeds, format values): the author's
                // document vs peers synced through v1 and through v2
                use yrs::{Text, GetString};
                for _ in 0..10 {
                    evaluations += 1;
                    let x = gen_any(&mut rng, 1);
                    let a = make_doc(1, false, false, false);
                    let ra = Roots::of(&a);
                    {
                        let mut txn = a.transact_mut();
                        ra.t.insert(&mut txn, 0, "ab");
                        ra.t.insert_embed(&mut txn, 1, x.clone());
                        ra.t.format(&mut txn, 0, 1, HashMap::from([(Arc::from("v"), x.clone())]));
                    }
                    let want = dump_doc(&ra, &a.transact());
                    let _ = ra.t.get_string(&a.transact());
                    let (u1, u2) = {
                        let txn = a.transact();
                        (txn.encode_state_as_update_v1(&StateVector::default()), txn.encode_state_as_update_v2(&StateVector::default()))
                    };
                    hashes.push(fnv(&u2));
                    let faithful = json_faithful(&x);
                    cnt.inc(if faithful { "jsonchan_json_faithful_values" } else { "jsonchan_non_json_values" });
                    for (v2, bytes) in [(false, &u1), (true, &u2)] {
                        let b = make_doc(2, false, false, false);
                        let rb = Roots::of(&b);
                        let u = if v2 { Update::decode_v2(bytes) } else { Update::decode_v1(bytes) };
                        let got = match u {
                            Err(e) => format!("decode error: {}", e),
                            Ok(u) => {
                                let b2 = b.clone();
                                match catch(move || b2.transact_mut().apply_update(u)) {
                                    Err(p) => format!("panic: {}", p),
                                    Ok(Err(e)) => format!("apply error: {}", e),
                                    Ok(Ok(())) => dump_doc(&rb, &b.transact()),
                                }
                            }
                        };
                        if got != want {
                            let k = format!("jsonchannel-differs:{}:{}", if v2 { "v2" } else { "v1" }, if faithful { "json-faithful-value" } else { "non-json-value" });
                            found.push((k, format!("a peer synced through {} shows another embed/format value than the author\n   author {}\n   peer   {}", if v2 { "v2" } else { "v1" }, want, got), format!("update_{}:{}", if v2 { "v2" } else { "v1" }, hex(bytes))));
                        }
                    }
                }
            }
            "foreign" => {
                for _ in 0..20 {
                    evaluations += 1;
                    let (what, b) = foreign_update(&mut rng);
                    hashes.push(fnv(&b));
                    cnt.inc(&format!("foreign_{}", what));
                    match catch(|| roundtrip(tid("update_v1"), &b, &mut cnt)) {
                        Err(p) => found.push((format!("panic:{}", p.split(' ').next().unwrap_or("")), format!("round trip of a foreign {} block panicked: {}", what, p), format!("update_v1:{}", hex(&b)))),
                        Ok(Err((k, d))) => found.push((format!("{}:{}", k, what), format!("foreign {} content: {}", what, d), format!("update_v1:{}", hex(&b)))),
                        Ok(Ok(())) => {}
                    }
                }
            }
            _ => {
                // Yjs-produced payloads: decode, re-encode v1 <-> v2, same effect as the original
                if dataset.is_empty() {
                    continue;
                }
                let ups = &dataset[(idx as usize) % dataset.len()];
                let doc_a = make_doc(1, false, false, false);
                let doc_b = make_doc(2, false, false, false);
                let names = |d: &yrs::Doc| (d.get_or_insert_text("text"), d.get_or_insert_map("map"), d.get_or_insert_array("array"));
                let (ta, ma, aa) = names(&doc_a);
                let (tb, mb, ab) = names(&doc_b);
                for u in ups {
                    evaluations += 1;
                    hashes.push(fnv(u));
                    cnt.inc("yjs_updates");
                    let x = match Update::decode_v1(u) {
                        Ok(x) => x,
                        Err(e) => {
                            found.push(("undecodable:yjs-update".into(), format!("a Yjs-produced update does not decode: {}", e), format!("update_v1:{}", hex(u))));
                            continue;
                        }
                    };
                    let re2 = x.encode_v2();
                    if let Err((k, d)) = roundtrip(tid("update_v1"), u, &mut cnt) {
                        found.push((format!("{}:yjs", k), d, format!("update_v1:{}", hex(u))));
                    }
                    let _ = doc_a.transact_mut().apply_update(x);
                    match Update::decode_v2(&re2) {
                        Ok(y) => {
                            let _ = doc_b.transact_mut().apply_update(y);
                        }
                        Err(e) => found.push(("cross-undecodable:yjs-update".into(), format!("{}", e), format!("update_v1:{}", hex(u)))),
                    }
                }
                use yrs::types::ToJson;
                use yrs::GetString;
                let (x, y) = (doc_a.transact(), doc_b.transact());
                if ta.get_string(&x) != tb.get_string(&y) || ma.to_json(&x) != mb.to_json(&y) || aa.to_json(&x) != ab.to_json(&y) {
                    found.push(("effect-differs:yjs".into(), format!("data set case {}: applying the updates re-encoded as v2 gives another document", idx), String::new()));
                }
                cnt.inc("yjs_cases");
            }
        }
        for (k, d, hx) in found {
            let mut entry = json!({"prop": "C09", "kind": k, "detail": d, "idx": idx});
            if !seen.contains(&k) {
                seen.push(k.clone());
                let _ = std::fs::create_dir_all(&replay_dir);
                let path = format!("{}/C09-{}-s{}-i{}.json", replay_dir, k.replace(|c: char| !c.is_alphanumeric(), "_"), seed, idx);
                let (tn, hexs) = hx.split_once(':').unwrap_or(("", ""));
                let doc = json!({"workload": "roundtrip", "prop": "C09", "tier": tier, "seed": seed, "idx": idx, "part": part, "target": tn, "hex": hexs,
                    "violation": {"prop": "C09", "kind": k, "detail": d}});
                if std::fs::write(&path, serde_json::to_string_pretty(&doc).unwrap()).is_ok() {
                    entry["replay"] = json!(path);
                }
            }
            if crate::util::room(&violations, entry["kind"].as_str().unwrap_or("")) {
                violations.push(entry);
            }
        }
    }
    let summary = json!({"workload": "roundtrip", "prop": "C09", "tier": tier, "seed": seed, "from": from, "count": count,
        "evaluations": evaluations, "hashes": hashes, "counters": cnt.0, "violations": violations, "samples": samples, "harness_errors": []});
    let text = serde_json::to_string(&summary).unwrap();
    if out.is_empty() {
        println!("{}", text);
    } else {
        std::fs::write(&out, text).unwrap();
    }
    0
}

pub fn replay_roundtrip(doc: &serde_json::Value) -> i32 {
    let t = doc["target"].as_str().unwrap_or("");
    if t.is_empty() || !TARGETS.contains(&t) {
        println!("this finding has no single payload; re-run: ymon roundtrip --part {} --from {} --count 1", doc["part"], doc["idx"]);
        return 2;
    }
    let data = unhex(doc["hex"].as_str().unwrap_or(""));
    let mut cnt = Counters::default();
    match catch(|| roundtrip(tid(t), &data, &mut cnt)) {
        Err(p) => {
            println!("REPLAY violation property=C09 kind=panic\n{}", p);
            1
        }
        Ok(Err((k, d))) => {
            println!("REPLAY violation property=C09 kind={}\n{}", k, d);
            1
        }
        Ok(Ok(())) => {
            println!("REPLAY no violation");
            0
        }
    }
}
