//! C17 — pure cross-check of all public read paths of a live type.
use crate::dump::*;
use std::collections::{BTreeSet, HashSet};
use yrs::types::ToJson;
use yrs::{Any, Array, GetString, Map, OffsetKind, ReadTxn, Text, TextRef, Xml, XmlFragment, XmlOut};

fn text_paths<T: ReadTxn>(t: &TextRef, txn: &T, kind: OffsetKind) -> Result<u64, String> {
    let units = text_units(t, txn);
    let s = t.get_string(txn);
    let from_units: String = units.iter().filter_map(|u| if let Unit::Ch(c, _) = u { Some(*c) } else { None }).collect();
    if s != from_units {
        return Err(format!("text get_string {:?} != concatenated diff chunks {:?}", s, from_units));
    }
    let len: u32 = units.iter().map(|u| u.len(kind)).sum();
    if t.len(txn) != len {
        return Err(format!("text len {} != units {} ({:?})", t.len(txn), len, kind));
    }
    let slen = match kind {
        OffsetKind::Bytes => s.len(),
        OffsetKind::Utf16 => s.encode_utf16().count(),
    } as u32;
    let embeds = units.iter().filter(|u| matches!(u, Unit::Emb(..))).count() as u32;
    if slen + embeds != len {
        return Err(format!("text len {} != get_string length {} + embeds {}", len, slen, embeds));
    }
    Ok(3)
}

fn xml_children<T: ReadTxn>(h: &Handle, txn: &T) -> Vec<XmlOut> {
    match h {
        Handle::XFrag(f) => f.children(txn).collect(),
        Handle::XElem(f) => f.children(txn).collect(),
        _ => vec![],
    }
}

fn dfs<T: ReadTxn>(h: &Handle, txn: &T, out: &mut Vec<String>) {
    for c in xml_children(h, txn) {
        out.push(format!("{:?}", c.id()));
        dfs(&Handle::from_xml(&c), txn, out);
    }
}

fn xml_string<T: ReadTxn>(x: &XmlOut, txn: &T) -> String {
    match x {
        XmlOut::Element(e) => e.get_string(txn),
        XmlOut::Fragment(e) => e.get_string(txn),
        XmlOut::Text(e) => e.get_string(txn),
    }
}

/// Cross-checks every read path of one live type. Returns the number of comparisons made.
pub fn read_paths<T: ReadTxn>(h: &Handle, txn: &T, kind: OffsetKind) -> Result<u64, String> {
    match h {
        Handle::Text(t) => text_paths(t, txn, kind),
        Handle::XText(t) => {
            let tr: &TextRef = t.as_ref();
            let n = text_paths(tr, txn, kind)?;
            let units = text_units(tr, txn);
            if units.iter().all(|u| matches!(u, Unit::Ch(_, a) if a.is_empty())) {
                let plain: String = units.iter().filter_map(|u| if let Unit::Ch(c, _) = u { Some(*c) } else { None }).collect();
                let xs = GetString::get_string(t, txn);
                if xs != plain {
                    return Err(format!("xml text rendered {:?} != plain content {:?}", xs, plain));
                }
            }
            Ok(n + 1)
        }
        Handle::Array(a) => {
            let it: Vec<String> = a.iter(txn).map(|o| dump_out(&o, txn)).collect();
            if a.len(txn) as usize != it.len() {
                return Err(format!("array len {} != iterated {}", a.len(txn), it.len()));
            }
            for i in 0..it.len() {
                match a.get(txn, i as u32) {
                    Some(o) => {
                        if dump_out(&o, txn) != it[i] {
                            return Err(format!("array get({}) = {} != iterated {}", i, dump_out(&o, txn), it[i]));
                        }
                    }
                    None => return Err(format!("array get({}) is None, len {}", i, it.len())),
                }
            }
            if a.get(txn, it.len() as u32).is_some() {
                return Err("array get(len) is defined".into());
            }
            match a.to_json(txn) {
                Any::Array(j) => {
                    if j.len() != it.len() {
                        return Err(format!("array to_json has {} elements, iteration {}", j.len(), it.len()));
                    }
                }
                _ => return Err("array to_json is not an array".into()),
            }
            Ok(it.len() as u64 + 3)
        }
        Handle::Map(m) => {
            let keys: Vec<String> = m.keys(txn).map(|k| k.to_string()).collect();
            let kset: BTreeSet<String> = keys.iter().cloned().collect();
            if kset.len() != keys.len() {
                return Err(format!("map keys() yields duplicates {:?}", keys));
            }
            let it: Vec<(String, String)> = m.iter(txn).map(|(k, v)| (k.to_string(), dump_out(&v, txn))).collect();
            let iset: BTreeSet<String> = it.iter().map(|x| x.0.clone()).collect();
            let nvals = m.values(txn).count();
            if kset != iset || keys.len() != m.len(txn) as usize || nvals != keys.len() || it.len() != keys.len() {
                return Err(format!("map keys {:?} iter {:?} values {} len {}", kset, iset, nvals, m.len(txn)));
            }
            for (k, v) in &it {
                if !m.contains_key(txn, k) {
                    return Err(format!("map contains_key({}) false for iterated key", k));
                }
                match m.get(txn, k) {
                    Some(o) => {
                        if &dump_out(&o, txn) != v {
                            return Err(format!("map get({}) != iterated value", k));
                        }
                    }
                    None => return Err(format!("map get({}) None for iterated key", k)),
                }
            }
            for probe in ["k0", "k1", "k2", "k3", "zz"] {
                if !kset.contains(probe) && (m.contains_key(txn, probe) || m.get(txn, probe).is_some()) {
                    return Err(format!("map reports key {} that iteration does not yield", probe));
                }
            }
            match m.to_json(txn) {
                Any::Map(j) => {
                    let jset: BTreeSet<String> = j.keys().map(|k| k.to_string()).collect();
                    if jset != kset {
                        return Err(format!("map to_json keys {:?} != keys {:?}", jset, kset));
                    }
                }
                _ => return Err("map to_json is not a map".into()),
            }
            Ok(it.len() as u64 * 2 + 4)
        }
        Handle::XFrag(_) | Handle::XElem(_) => {
            let kids = xml_children(h, txn);
            let ids: Vec<String> = kids.iter().map(|c| format!("{:?}", c.id())).collect();
            let (len, first) = match h {
                Handle::XFrag(f) => (f.len(txn), f.first_child()),
                Handle::XElem(f) => (f.len(txn), f.first_child()),
                _ => unreachable!(),
            };
            if len as usize != kids.len() {
                return Err(format!("xml len {} != children {}", len, kids.len()));
            }
            for i in 0..=kids.len() {
                let g = match h {
                    Handle::XFrag(f) => f.get(txn, i as u32),
                    Handle::XElem(f) => f.get(txn, i as u32),
                    _ => unreachable!(),
                };
                match (g, ids.get(i)) {
                    (Some(g), Some(id)) => {
                        if &format!("{:?}", g.id()) != id {
                            return Err(format!("xml get({}) is {:?}, children[{}] is {}", i, g.id(), i, id));
                        }
                    }
                    (None, None) => {}
                    (g, id) => return Err(format!("xml get({}) = {:?} but children[{}] = {:?}", i, g.map(|g| g.id()), i, id)),
                }
            }
            // first_child looks at the first *item*; the property speaks about the first visible child
            match (first.map(|f| format!("{:?}", f.id())), ids.first()) {
                (Some(a), Some(b)) if &a == b => {}
                (None, None) => {}
                (a, b) => return Err(format!("xml first_child {:?} != children[0] {:?}", a, b)),
            }
            let my = format!("{:?}", h.id());
            for (i, c) in kids.iter().enumerate() {
                let sib: Vec<String> = match c {
                    XmlOut::Element(e) => e.siblings(txn).map(|s| format!("{:?}", s.id())).collect(),
                    XmlOut::Text(e) => e.siblings(txn).map(|s| format!("{:?}", s.id())).collect(),
                    XmlOut::Fragment(_) => ids[i + 1..].to_vec(),
                };
                if sib[..] != ids[i + 1..] {
                    return Err(format!("xml siblings of child {} = {:?}, children after it = {:?}", i, sib, &ids[i + 1..]));
                }
                // the same iterator driven from its back end only walks the previous siblings
                // (nearest first); mixed front/back use shares one cursor and is not compared
                let mut back: Vec<String> = match c {
                    XmlOut::Element(e) => e.siblings(txn).rev().map(|s| format!("{:?}", s.id())).collect(),
                    XmlOut::Text(e) => e.siblings(txn).rev().map(|s| format!("{:?}", s.id())).collect(),
                    XmlOut::Fragment(_) => ids[..i].iter().rev().cloned().collect(),
                };
                back.reverse();
                if back[..] != ids[..i] {
                    return Err(format!("xml siblings (backwards) of child {} = {:?}, children before it = {:?}", i, back, &ids[..i]));
                }
                let par = match c {
                    XmlOut::Element(e) => e.parent().map(|p| format!("{:?}", p.id())),
                    XmlOut::Text(e) => e.parent().map(|p| format!("{:?}", p.id())),
                    XmlOut::Fragment(e) => e.parent().map(|p| format!("{:?}", p.id())),
                };
                if par.as_deref() != Some(my.as_str()) {
                    return Err(format!("xml parent of child {} is {:?}, expected {}", i, par, my));
                }
            }
            let mut want = vec![];
            dfs(h, txn, &mut want);
            let got: Vec<String> = match h {
                Handle::XFrag(f) => f.successors(txn).map(|s| format!("{:?}", s.id())).collect(),
                Handle::XElem(f) => f.successors(txn).map(|s| format!("{:?}", s.id())).collect(),
                _ => unreachable!(),
            };
            if got != want {
                return Err(format!("xml successors {:?} != depth-first walk over children {:?}", got, want));
            }
            // rendered string
            let inner: String = kids.iter().map(|c| xml_string(c, txn)).collect();
            match h {
                Handle::XFrag(f) => {
                    let s = f.get_string(txn);
                    if s != inner {
                        return Err(format!("xml fragment renders {:?}, children render {:?}", s, inner));
                    }
                }
                Handle::XElem(e) => {
                    let s = e.get_string(txn);
                    let tag = e.tag().to_string();
                    let open_end = s.find('>').ok_or("xml element string has no '>'")?;
                    let head = &s[..open_end];
                    if !head.starts_with(&format!("<{}", tag)) {
                        return Err(format!("xml element renders {:?}, tag {}", s, tag));
                    }
                    let rendered_attrs: HashSet<String> = head[tag.len() + 1..].split(' ').filter(|x| !x.is_empty()).map(|x| x.to_string()).collect();
                    let attrs: HashSet<String> = e.attributes(txn).map(|(k, v)| format!("{}=\"{}\"", k, v.to_string(txn))).collect();
                    if rendered_attrs != attrs && !attrs.iter().any(|a| a.contains(' ') || a.contains('>')) {
                        return Err(format!("xml element renders attributes {:?}, attributes() yields {:?}", rendered_attrs, attrs));
                    }
                    let rest = &s[open_end + 1..];
                    if rest != format!("{}</{}>", inner, tag) {
                        return Err(format!("xml element renders {:?}, children render {:?}", s, inner));
                    }
                }
                _ => {}
            }
            Ok(kids.len() as u64 * 3 + 5)
        }
    }
}

/// All live types of a document.
pub fn read_paths_doc<T: ReadTxn>(roots: &Roots, txn: &T, kind: OffsetKind) -> Result<u64, String> {
    let mut n = 0;
    for (h, _) in live_types(roots, txn) {
        n += read_paths(&h, txn, kind).map_err(|e| format!("{} {:?}: {}", h.kind(), h.id(), e))?;
    }
    Ok(n)
}
