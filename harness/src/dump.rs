//! Canonical observation of a document through the *public read API* only.
//!
//! The canonical dump is a string: text -> rendered units with their attribute sets (adjacent units
//! with equal attributes are grouped, so it is insensitive to redundant format marks and to block
//! boundaries); array -> list; map -> sorted entries; XML -> tag, sorted attributes, children;
//! nested types recursively; sub-document -> guid. Equality of dumps is the meaning of "expose
//! identical content".
use std::collections::BTreeMap;
use yrs::branch::Branch;
use yrs::types::text::YChange;
use yrs::types::Attrs;
use yrs::{
    Any, Array, ArrayRef, BranchID, GetString, Map, MapRef, OffsetKind, Out, ReadTxn, Text, TextRef, Xml,
    XmlElementRef, XmlFragment, XmlFragmentRef, XmlOut, XmlTextRef,
};

pub fn any_str(a: &Any) -> String {
    let mut s = String::new();
    fmt_any(a, &mut s);
    s
}

fn fmt_any(a: &Any, s: &mut String) {
    match a {
        Any::Map(m) => {
            let mut ks: Vec<_> = m.iter().collect();
            ks.sort_by(|x, y| x.0.cmp(y.0));
            s.push('{');
            for (k, v) in ks {
                s.push_str(k);
                s.push(':');
                fmt_any(v, s);
                s.push(',');
            }
            s.push('}');
        }
        Any::Array(v) => {
            s.push('[');
            for x in v.iter() {
                fmt_any(x, s);
                s.push(',');
            }
            s.push(']');
        }
        Any::Number(n) => {
            if n.is_nan() {
                s.push_str("NaN");
            } else if *n == 0.0 {
                // -0.0 == 0.0 as a value (the integer encodings of lib0 cannot carry the sign)
                s.push('0');
            } else {
                s.push_str(&format!("{}", n));
            }
        }
        Any::BigInt(n) => s.push_str(&format!("{}n", n)),
        Any::String(x) => s.push_str(&format!("{:?}", x)),
        Any::Buffer(b) => s.push_str(&format!("buf{:?}", b)),
        Any::Bool(b) => s.push_str(if *b { "true" } else { "false" }),
        Any::Null => s.push_str("null"),
        Any::Undefined => s.push_str("undefined"),
    }
}

pub fn attrs_map(a: &Option<Box<Attrs>>) -> BTreeMap<String, String> {
    match a {
        None => BTreeMap::new(),
        Some(a) => a
            .iter()
            .filter(|(_, v)| **v != Any::Null)
            .map(|(k, v)| (k.to_string(), any_str(v)))
            .collect(),
    }
}

pub fn attrs_str(a: &BTreeMap<String, String>) -> String {
    a.iter().map(|(k, v)| format!("{}={}", k, v)).collect::<Vec<_>>().join(";")
}

/// One rendered unit of a text: a character or an embed (embeds count as one unit).
#[derive(Clone, Debug, PartialEq)]
pub enum Unit {
    Ch(char, String),
    Emb(String, String),
}

impl Unit {
    pub fn len(&self, k: OffsetKind) -> u32 {
        match self {
            Unit::Ch(c, _) => match k {
                OffsetKind::Bytes => c.len_utf8() as u32,
                OffsetKind::Utf16 => c.len_utf16() as u32,
            },
            Unit::Emb(..) => 1,
        }
    }
    /// Number of clock ticks the unit occupies in its block (UTF-16 code units for characters).
    pub fn clocks(&self) -> u32 {
        match self {
            Unit::Ch(c, _) => c.len_utf16() as u32,
            Unit::Emb(..) => 1,
        }
    }
    pub fn tag(&self) -> String {
        match self {
            Unit::Ch(c, _) => format!("c{}", c),
            Unit::Emb(e, _) => format!("e{}", e),
        }
    }
    pub fn attrs(&self) -> &str {
        match self {
            Unit::Ch(_, a) | Unit::Emb(_, a) => a,
        }
    }
}

pub fn text_units<T: ReadTxn>(t: &TextRef, txn: &T) -> Vec<Unit> {
    let mut out = vec![];
    for c in t.diff(txn, YChange::identity) {
        let a = attrs_str(&attrs_map(&c.attributes));
        match &c.insert {
            Out::Any(Any::String(s)) => {
                for ch in s.chars() {
                    out.push(Unit::Ch(ch, a.clone()))
                }
            }
            other => out.push(Unit::Emb(dump_out(other, txn), a.clone())),
        }
    }
    out
}

/// Shallow label of a value: primitives rendered, shared types by kind only.
pub fn shallow(o: &Out) -> String {
    match o {
        Out::Any(a) => any_str(a),
        Out::YText(_) => "<T>".into(),
        Out::YArray(_) => "<A>".into(),
        Out::YMap(_) => "<M>".into(),
        Out::YXmlElement(_) => "<XE>".into(),
        Out::YXmlFragment(_) => "<XF>".into(),
        Out::YXmlText(_) => "<XT>".into(),
        Out::YDoc(d) => format!("<D {}>", d.guid()),
        Out::YWeakLink(_) => "<W>".into(),
        Out::UndefinedRef(_) => "<U>".into(),
    }
}

pub fn dump_units(u: &[Unit]) -> String {
    let mut s = String::new();
    let mut last: Option<&str> = None;
    for x in u {
        match x {
            Unit::Ch(c, a) => {
                if last != Some(a.as_str()) {
                    s.push_str(&format!("|{}>", a));
                    last = Some(a.as_str());
                }
                s.push(*c);
            }
            Unit::Emb(e, a) => {
                s.push_str(&format!("|{}>(<{}>)", a, e));
                last = None;
            }
        }
    }
    s
}

pub fn dump_text<T: ReadTxn>(t: &TextRef, txn: &T) -> String {
    format!("T\"{}\"", dump_units(&text_units(t, txn)))
}

pub fn dump_array<T: ReadTxn>(a: &ArrayRef, txn: &T) -> String {
    let mut s = String::from("A[");
    for x in a.iter(txn) {
        s.push_str(&dump_out(&x, txn));
        s.push(',');
    }
    s.push(']');
    s
}

pub fn dump_map<T: ReadTxn>(m: &MapRef, txn: &T) -> String {
    let mut e: Vec<(String, String)> = m.iter(txn).map(|(k, v)| (k.to_string(), dump_out(&v, txn))).collect();
    e.sort();
    let mut s = String::from("M{");
    for (k, v) in e {
        s.push_str(&k);
        s.push(':');
        s.push_str(&v);
        s.push(',');
    }
    s.push('}');
    s
}

fn dump_children<T: ReadTxn, F: XmlFragment>(f: &F, txn: &T) -> String {
    let mut s = String::from("[");
    for c in f.children(txn) {
        s.push_str(&dump_xml(&c, txn));
        s.push(',');
    }
    s.push(']');
    s
}

pub fn dump_xml<T: ReadTxn>(x: &XmlOut, txn: &T) -> String {
    match x {
        XmlOut::Element(e) => {
            let mut attrs: Vec<(String, String)> =
                e.attributes(txn).map(|(k, v)| (k.to_string(), dump_out(&v, txn))).collect();
            attrs.sort();
            format!("<{} {:?}>{}", e.tag(), attrs, dump_children(e, txn))
        }
        XmlOut::Fragment(f) => format!("F{}", dump_children(f, txn)),
        XmlOut::Text(t) => {
            let tr: &TextRef = t.as_ref();
            let mut attrs: Vec<(String, String)> =
                t.attributes(txn).map(|(k, v)| (k.to_string(), dump_out(&v, txn))).collect();
            attrs.sort();
            format!("X{:?}\"{}\"", attrs, dump_units(&text_units(tr, txn)))
        }
    }
}

pub fn dump_out<T: ReadTxn>(o: &Out, txn: &T) -> String {
    match o {
        Out::Any(a) => any_str(a),
        Out::YText(t) => dump_text(t, txn),
        Out::YArray(a) => dump_array(a, txn),
        Out::YMap(m) => dump_map(m, txn),
        Out::YXmlElement(e) => dump_xml(&XmlOut::Element(e.clone()), txn),
        Out::YXmlFragment(e) => dump_xml(&XmlOut::Fragment(e.clone()), txn),
        Out::YXmlText(e) => dump_xml(&XmlOut::Text(e.clone()), txn),
        Out::YDoc(d) => format!("D<{}>", d.guid()),
        Out::YWeakLink(_) => "W<>".to_string(),
        Out::UndefinedRef(_) => "U<>".to_string(),
    }
}

/// The four root types every simulated replica declares.
#[derive(Clone)]
pub struct Roots {
    pub t: TextRef,
    pub a: ArrayRef,
    pub m: MapRef,
    pub x: XmlFragmentRef,
}

impl Roots {
    pub fn of(doc: &yrs::Doc) -> Roots {
        Roots {
            t: doc.get_or_insert_text("t"),
            a: doc.get_or_insert_array("a"),
            m: doc.get_or_insert_map("m"),
            x: doc.get_or_insert_xml_fragment("x"),
        }
    }
}

pub fn dump_doc<T: ReadTxn>(r: &Roots, txn: &T) -> String {
    format!(
        "t={} a={} m={} x={}",
        dump_text(&r.t, txn),
        dump_array(&r.a, txn),
        dump_map(&r.m, txn),
        dump_xml(&XmlOut::Fragment(r.x.clone()), txn)
    )
}

/// A live shared type reachable from the roots.
#[derive(Clone)]
pub enum Handle {
    Text(TextRef),
    Array(ArrayRef),
    Map(MapRef),
    XFrag(XmlFragmentRef),
    XElem(XmlElementRef),
    XText(XmlTextRef),
}

impl Handle {
    pub fn branch(&self) -> &Branch {
        match self {
            Handle::Text(x) => x.as_ref(),
            Handle::Array(x) => x.as_ref(),
            Handle::Map(x) => x.as_ref(),
            Handle::XFrag(x) => x.as_ref(),
            Handle::XElem(x) => x.as_ref(),
            Handle::XText(x) => x.as_ref(),
        }
    }
    pub fn id(&self) -> BranchID {
        self.branch().id()
    }
    pub fn kind(&self) -> &'static str {
        match self {
            Handle::Text(_) => "text",
            Handle::Array(_) => "array",
            Handle::Map(_) => "map",
            Handle::XFrag(_) => "xfrag",
            Handle::XElem(_) => "xelem",
            Handle::XText(_) => "xtext",
        }
    }
    /// Text-like view (Text or XmlText).
    pub fn as_text(&self) -> Option<TextRef> {
        match self {
            Handle::Text(t) => Some(t.clone()),
            Handle::XText(t) => {
                let r: &TextRef = t.as_ref();
                Some(r.clone())
            }
            _ => None,
        }
    }
    pub fn from_out(o: &Out) -> Option<Handle> {
        match o {
            Out::YText(t) => Some(Handle::Text(t.clone())),
            Out::YArray(t) => Some(Handle::Array(t.clone())),
            Out::YMap(t) => Some(Handle::Map(t.clone())),
            Out::YXmlElement(t) => Some(Handle::XElem(t.clone())),
            Out::YXmlFragment(t) => Some(Handle::XFrag(t.clone())),
            Out::YXmlText(t) => Some(Handle::XText(t.clone())),
            _ => None,
        }
    }
    pub fn from_xml(o: &XmlOut) -> Handle {
        match o {
            XmlOut::Element(e) => Handle::XElem(e.clone()),
            XmlOut::Fragment(e) => Handle::XFrag(e.clone()),
            XmlOut::Text(e) => Handle::XText(e.clone()),
        }
    }
}

/// All live shared types reachable from the roots through the public read API, with their nesting
/// depth, in a deterministic order (map entries sorted by key).
pub fn live_types<T: ReadTxn>(r: &Roots, txn: &T) -> Vec<(Handle, u32)> {
    let mut out = vec![];
    let mut stack: Vec<(Handle, u32)> = vec![
        (Handle::XFrag(r.x.clone()), 0),
        (Handle::Map(r.m.clone()), 0),
        (Handle::Array(r.a.clone()), 0),
        (Handle::Text(r.t.clone()), 0),
    ];
    while let Some((h, d)) = stack.pop() {
        let mut kids: Vec<Handle> = vec![];
        match &h {
            Handle::Text(t) => {
                for c in t.diff(txn, YChange::identity) {
                    if let Some(k) = Handle::from_out(&c.insert) {
                        kids.push(k);
                    }
                }
            }
            Handle::XText(t) => {
                let tr: &TextRef = t.as_ref();
                for c in tr.diff(txn, YChange::identity) {
                    if let Some(k) = Handle::from_out(&c.insert) {
                        kids.push(k);
                    }
                }
            }
            Handle::Array(a) => {
                for o in a.iter(txn) {
                    if let Some(k) = Handle::from_out(&o) {
                        kids.push(k);
                    }
                }
            }
            Handle::Map(m) => {
                let mut es: Vec<(String, Out)> = m.iter(txn).map(|(k, v)| (k.to_string(), v)).collect();
                es.sort_by(|a, b| a.0.cmp(&b.0));
                for (_, o) in es {
                    if let Some(k) = Handle::from_out(&o) {
                        kids.push(k);
                    }
                }
            }
            Handle::XFrag(f) => {
                for c in f.children(txn) {
                    kids.push(Handle::from_xml(&c));
                }
            }
            Handle::XElem(f) => {
                for c in f.children(txn) {
                    kids.push(Handle::from_xml(&c));
                }
            }
        }
        out.push((h, d));
        for k in kids.into_iter().rev() {
            stack.push((k, d + 1));
        }
        if out.len() > 400 {
            break;
        }
    }
    out
}

/// Rendered string of a text-like type via `get_string` (public path #2, used by read-path checks).
pub fn text_string<T: ReadTxn>(t: &TextRef, txn: &T) -> String {
    t.get_string(txn)
}
