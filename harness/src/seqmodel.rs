//! C03 — each shared type behaves like its sequential data structure on one replica.
//! Reference models (plain Rust values) are run in lock-step with the real document: every call is
//! described by `ops::exec_call` as semantic `Effect`s, the model applies them, and the canonical
//! dump of the model must equal the canonical dump of the document after every call, after the
//! commit (squash), after forced gc and after a full-state round trip into a fresh document.
use crate::dump::*;
use crate::ops::*;
use crate::prog::*;
use crate::util::{catch, Args, Counters, Rng};
use crate::world::make_doc;
use serde_json::json;
use std::collections::{BTreeMap, HashMap};
use std::io::Write;
use yrs::updates::decoder::Decode;
use yrs::{OffsetKind, ReadTxn, StateVector, Text, Transact, Update};

#[derive(Clone, Debug)]
pub enum MItem {
    Prim(String),
    Node(Cid),
    Doc(String),
}

#[derive(Clone, Debug)]
pub enum MUnit {
    Ch(char),
    Emb(MItem),
}

#[derive(Clone, Debug)]
pub enum MNode {
    Text(Vec<(MUnit, BTreeMap<String, String>)>),
    Array(Vec<MItem>),
    Map(BTreeMap<String, MItem>),
    XFrag(Vec<MItem>),
    XElem(String, BTreeMap<String, MItem>, Vec<MItem>),
    XText(Vec<(MUnit, BTreeMap<String, String>)>, BTreeMap<String, MItem>),
}

#[derive(Default)]
pub struct SeqModel {
    pub nodes: HashMap<Cid, MNode>,
}

impl SeqModel {
    pub fn new() -> SeqModel {
        let mut m = SeqModel::default();
        m.nodes.insert("'t'".into(), MNode::Text(vec![]));
        m.nodes.insert("'a'".into(), MNode::Array(vec![]));
        m.nodes.insert("'m'".into(), MNode::Map(BTreeMap::new()));
        m.nodes.insert("'x'".into(), MNode::XFrag(vec![]));
        m
    }

    fn item(&mut self, it: &Item) -> MItem {
        match it {
            Item::Prim(l) => MItem::Prim(l.clone()),
            Item::Doc(g) => MItem::Doc(g.clone()),
            Item::Nested(cid, init) => {
                let node = match init {
                    Init::Text(s) => MNode::Text(s.chars().map(|c| (MUnit::Ch(c), BTreeMap::new())).collect()),
                    Init::Array(v) => MNode::Array(v.iter().map(|l| MItem::Prim(l.clone())).collect()),
                    Init::Map(v) => MNode::Map(v.iter().map(|(k, l)| (k.clone(), MItem::Prim(l.clone()))).collect()),
                    Init::XElem(tag) => MNode::XElem(tag.clone(), BTreeMap::new(), vec![]),
                    Init::XText(s) => MNode::XText(s.chars().map(|c| (MUnit::Ch(c), BTreeMap::new())).collect(), BTreeMap::new()),
                };
                self.nodes.insert(cid.clone(), node);
                MItem::Node(cid.clone())
            }
        }
    }

    fn units(&mut self, c: &str) -> Option<&mut Vec<(MUnit, BTreeMap<String, String>)>> {
        match self.nodes.get_mut(c)? {
            MNode::Text(u) => Some(u),
            MNode::XText(u, _) => Some(u),
            _ => None,
        }
    }

    fn seq(&mut self, c: &str) -> Option<&mut Vec<MItem>> {
        match self.nodes.get_mut(c)? {
            MNode::Array(v) => Some(v),
            MNode::XFrag(v) => Some(v),
            MNode::XElem(_, _, v) => Some(v),
            _ => None,
        }
    }

    fn map(&mut self, c: &str) -> Option<&mut BTreeMap<String, MItem>> {
        match self.nodes.get_mut(c)? {
            MNode::Map(m) => Some(m),
            MNode::XElem(_, m, _) => Some(m),
            MNode::XText(_, m) => Some(m),
            _ => None,
        }
    }

    pub fn apply(&mut self, e: &Effect) -> Result<(), String> {
        match e {
            Effect::Nop | Effect::Quote { .. } | Effect::Link { .. } => {}
            Effect::TextInsert { c, at, s, attrs } => {
                let u = self.units(c).ok_or(format!("model has no text {}", c))?;
                let a = match attrs {
                    AttrMode::Inherit => {
                        if *at == 0 {
                            BTreeMap::new()
                        } else {
                            u[*at - 1].1.clone()
                        }
                    }
                    AttrMode::Exact(m) => m.clone(),
                };
                for (i, ch) in s.chars().enumerate() {
                    u.insert(*at + i, (MUnit::Ch(ch), a.clone()));
                }
            }
            Effect::TextEmbed { c, at, item, attrs } => {
                let it = self.item(item);
                let u = self.units(c).ok_or(format!("model has no text {}", c))?;
                let a = match attrs {
                    AttrMode::Inherit => {
                        if *at == 0 {
                            BTreeMap::new()
                        } else {
                            u[*at - 1].1.clone()
                        }
                    }
                    AttrMode::Exact(m) => m.clone(),
                };
                u.insert(*at, (MUnit::Emb(it), a));
            }
            Effect::TextFormat { c, at, len, key, val } => {
                let u = self.units(c).ok_or(format!("model has no text {}", c))?;
                for x in u[*at..*at + *len].iter_mut() {
                    match val {
                        Some(v) => {
                            x.1.insert(key.clone(), v.clone());
                        }
                        None => {
                            x.1.remove(key);
                        }
                    }
                }
            }
            Effect::TextRemove { c, at, len } => {
                let u = self.units(c).ok_or(format!("model has no text {}", c))?;
                u.drain(*at..*at + *len);
            }
            Effect::SeqInsert { c, at, items } => {
                let its: Vec<MItem> = items.iter().map(|i| self.item(i)).collect();
                let s = self.seq(c).ok_or(format!("model has no sequence {}", c))?;
                for (i, it) in its.into_iter().enumerate() {
                    s.insert(*at + i, it);
                }
            }
            Effect::SeqRemove { c, at, len } => {
                let s = self.seq(c).ok_or(format!("model has no sequence {}", c))?;
                s.drain(*at..*at + *len);
            }
            Effect::MapSet { c, key, item } => {
                let it = self.item(item);
                let m = self.map(c).ok_or(format!("model has no map {}", c))?;
                m.insert(key.clone(), it);
            }
            Effect::MapRemove { c, key } => {
                let m = self.map(c).ok_or(format!("model has no map {}", c))?;
                m.remove(key);
            }
            Effect::MapClear { c } => {
                let m = self.map(c).ok_or(format!("model has no map {}", c))?;
                m.clear();
            }
        }
        Ok(())
    }

    fn dump_item(&self, it: &MItem) -> String {
        match it {
            MItem::Prim(l) => l.clone(),
            MItem::Doc(g) => format!("D<{}>", g),
            MItem::Node(c) => self.dump_node(c),
        }
    }

    fn dump_munits(&self, u: &[(MUnit, BTreeMap<String, String>)]) -> String {
        let units: Vec<Unit> = u
            .iter()
            .map(|(x, a)| match x {
                MUnit::Ch(c) => Unit::Ch(*c, attrs_str(a)),
                MUnit::Emb(it) => Unit::Emb(self.dump_item(it), attrs_str(a)),
            })
            .collect();
        dump_units(&units)
    }

    fn dump_seq(&self, v: &[MItem]) -> String {
        let mut s = String::from("[");
        for it in v {
            s.push_str(&self.dump_item(it));
            s.push(',');
        }
        s.push(']');
        s
    }

    pub fn dump_node(&self, c: &str) -> String {
        match self.nodes.get(c) {
            None => format!("?{}", c),
            Some(MNode::Text(u)) => format!("T\"{}\"", self.dump_munits(u)),
            Some(MNode::Array(v)) => format!("A{}", self.dump_seq(v)),
            Some(MNode::Map(m)) => {
                let mut s = String::from("M{");
                for (k, v) in m.iter() {
                    s.push_str(k);
                    s.push(':');
                    s.push_str(&self.dump_item(v));
                    s.push(',');
                }
                s.push('}');
                s
            }
            Some(MNode::XFrag(v)) => format!("F{}", self.dump_seq(v)),
            Some(MNode::XElem(tag, attrs, kids)) => {
                let a: Vec<(String, String)> = attrs.iter().map(|(k, v)| (k.clone(), self.dump_item(v))).collect();
                format!("<{} {:?}>{}", tag, a, self.dump_seq(kids))
            }
            Some(MNode::XText(u, attrs)) => {
                let a: Vec<(String, String)> = attrs.iter().map(|(k, v)| (k.clone(), self.dump_item(v))).collect();
                format!("X{:?}\"{}\"", a, self.dump_munits(u))
            }
        }
    }

    pub fn dump(&self) -> String {
        format!("t={} a={} m={} x={}", self.dump_node("'t'"), self.dump_node("'a'"), self.dump_node("'m'"), self.dump_node("'x'"))
    }

    /// Length of the root text in the given offset unit.
    pub fn text_len(&self, c: &str, k: OffsetKind) -> u32 {
        match self.nodes.get(c) {
            Some(MNode::Text(u)) | Some(MNode::XText(u, _)) => u
                .iter()
                .map(|(x, _)| match x {
                    MUnit::Ch(c) => match k {
                        OffsetKind::Bytes => c.len_utf8() as u32,
                        OffsetKind::Utf16 => c.len_utf16() as u32,
                    },
                    MUnit::Emb(_) => 1,
                })
                .sum(),
            _ => 0,
        }
    }
}

pub struct SeqResult {
    pub violation: Option<(String, String)>,
    pub cnt: Counters,
    pub log: Vec<String>,
    pub layout_hash: u64,
}

/// Runs one single-replica program in lock-step with the model.
pub fn run_seq(prog: &Program) -> SeqResult {
    crate::util::note_candidate("seq", "C03", &serde_json::to_value(prog).unwrap());
    let cfg = &prog.cfg[0];
    let doc = make_doc(cfg.id, cfg.gc, cfg.bytes, cfg.cleanup);
    let roots = Roots::of(&doc);
    let kind = if cfg.bytes { OffsetKind::Bytes } else { OffsetKind::Utf16 };
    let mut model = SeqModel::new();
    let mut cnt = Counters::default();
    let mut log: Vec<String> = vec![];
    let mut tagn = 0u32;
    let mut nchars = 0u32;
    let mut violation: Option<(String, String)> = None;
    let tail = |log: &Vec<String>| log[log.len().saturating_sub(8)..].join(" ; ");
    'outer: for step in &prog.steps {
        match step {
            Step::Txn { calls, .. } => {
                let res = catch(|| -> Result<(), (String, String)> {
                    let mut txn = doc.transact_mut();
                    for call in calls {
                        let effects = {
                            let mut ctx = OpCtx { tagn: &mut tagn, kind, log: &mut log, rid: cfg.id, max_depth: 3, ascii: prog.ascii, nchars: &mut nchars };
                            exec_call(call, &roots, &mut txn, &mut ctx)
                        };
                        for e in &effects {
                            cnt.inc(&format!("call_{}", crate::world::effect_name(e)));
                            model.apply(e).map_err(|m| ("harness".to_string(), m))?;
                        }
                        let got = dump_doc(&roots, &txn);
                        let want = model.dump();
                        cnt.inc("comparisons");
                        if got != want {
                            return Err(("state-differs".into(), format!("after the call the document differs from the reference model ({:?}, gc {})\n   real  {}\n   model {}", kind, cfg.gc, got, want)));
                        }
                        let l = roots.t.len(&txn);
                        if l != model.text_len("'t'", kind) {
                            return Err(("length-differs".into(), format!("text len {} but the model has {} ({:?})", l, model.text_len("'t'", kind), kind)));
                        }
                    }
                    Ok(())
                });
                match res {
                    Err(p) => {
                        violation = Some((format!("panic:{}", p.split(' ').next().unwrap_or("")), format!("a valid call panicked: {} ;; calls: {}", p, tail(&log))));
                        break 'outer;
                    }
                    Ok(Err((k, d))) => {
                        violation = Some((k, format!("{} ;; calls: {}", d, tail(&log))));
                        break 'outer;
                    }
                    Ok(Ok(())) => {}
                }
                // after the commit (squash, gc of this transaction)
                let got = dump_doc(&roots, &doc.transact());
                let want = model.dump();
                cnt.inc("comparisons");
                if got != want {
                    violation = Some(("state-differs-after-commit".into(), format!("after the commit the document differs from the reference model ({:?}, gc {})\n   real  {}\n   model {} ;; calls: {}", kind, cfg.gc, got, want, tail(&log))));
                    break 'outer;
                }
            }
            Step::Gc { ds, .. } => {
                let with_ds = *ds;
                log.push("force gc".into());
                let d2 = doc.clone();
                let res = catch(move || {
                    let dset = d2.transact().snapshot().delete_set;
                    let mut txn = d2.transact_mut();
                    if with_ds {
                        txn.gc(Some(&dset))
                    } else {
                        txn.gc(None)
                    }
                });
                if let Err(p) = res {
                    violation = Some((format!("panic:{}", p.split(' ').next().unwrap_or("")), format!("forced gc panicked: {}", p)));
                    break 'outer;
                }
                cnt.inc("forced_gc");
                let got = dump_doc(&roots, &doc.transact());
                if got != model.dump() {
                    violation = Some(("state-differs-after-gc".into(), format!("after forced gc the document differs from the reference model\n   real  {}\n   model {} ;; calls: {}", got, model.dump(), tail(&log))));
                    break 'outer;
                }
            }
            Step::Probe { x, .. } => {
                // full-state round trip into a fresh document, either encoding
                let v2 = x % 2 == 0;
                let txn = doc.transact();
                let full = if v2 { txn.encode_state_as_update_v2(&StateVector::default()) } else { txn.encode_state_as_update_v1(&StateVector::default()) };
                drop(txn);
                let f = make_doc(777, x % 3 == 0, x % 5 < 2, false);
                let fr = Roots::of(&f);
                let u = if v2 { Update::decode_v2(&full) } else { Update::decode_v1(&full) };
                let res = match u {
                    Err(e) => Err(format!("decode: {}", e)),
                    Ok(u) => {
                        let f2 = f.clone();
                        match catch(move || f2.transact_mut().apply_update(u)) {
                            Err(p) => Err(format!("panic: {}", p)),
                            Ok(Err(e)) => Err(format!("apply: {}", e)),
                            Ok(Ok(())) => Ok(()),
                        }
                    }
                };
                cnt.inc("round_trips");
                if let Err(e) = res {
                    violation = Some((format!("roundtrip-{}", e.split(':').next().unwrap_or("")), format!("full state of the document cannot be loaded into a fresh one: {} ;; calls: {}", e, tail(&log))));
                    break 'outer;
                }
                let got = dump_doc(&fr, &f.transact());
                if got != model.dump() {
                    violation = Some(("state-differs-after-roundtrip".into(), format!("a fresh document loaded from the full state (v{}) differs from the reference model\n   real  {}\n   model {} ;; calls: {}", if v2 { 2 } else { 1 }, got, model.dump(), tail(&log))));
                    break 'outer;
                }
            }
            _ => {}
        }
    }
    // block layout reached (hook H2): shape of the root item sequences
    let mut shape = String::new();
    {
        let txn = doc.transact();
        for h in [Handle::Text(roots.t.clone()), Handle::Array(roots.a.clone())] {
            if let Some(items) = yrs::verif::branch_items(&txn, &h.id()) {
                for it in items {
                    shape.push_str(&format!("{}{}{},", it.content, it.len, if it.deleted { "d" } else { "" }));
                }
            }
        }
        let blocks = yrs::verif::store_blocks(&txn);
        cnt.max("max_blocks", blocks.len() as u64);
    }
    SeqResult { violation, cnt, log, layout_hash: crate::util::fnv_str(&shape) }
}

pub fn gen_seq_program(rng: &mut Rng, thorough: bool) -> Program {
    let mut p = Profile::general();
    p.subdocs = true;
    p.nested = 20;
    p.calls = [12, 6, 4, 8, 8, 4, 3, 5, 5, 3, 6, 6, 2, 3, 1, 2, 4, 3, 3, 2, 0, 0];
    let cfg = vec![RepCfg { id: if rng.bool() { 1 } else { (1u64 << 53) - 7 }, gc: rng.bool(), bytes: rng.bool(), cleanup: rng.bool() }];
    let n = if thorough && rng.u8(0..8) == 0 { rng.usize(100..300) } else { rng.usize(8..60) };
    let mut steps = vec![];
    for _ in 0..n {
        steps.push(match rng.u8(0..20) {
            0 => Step::Gc { r: 0, ds: rng.bool() },
            1 => Step::Probe { a: 0, b: 0, x: rng.u32(0..1000), y: 0 },
            _ => {
                let k = rng.usize(1..4);
                Step::Txn { r: 0, calls: (0..k).map(|_| gen_call(rng, &p)).collect() }
            }
        });
    }
    steps.push(Step::Probe { a: 0, b: 0, x: rng.u32(0..1000), y: 0 });
    Program { cfg, steps, ascii: rng.u8(0..10) == 0 }
}

fn minimise_seq(prog: &Program, kind: &str, budget: usize) -> Program {
    let mut best = prog.clone();
    let mut runs = 0;
    let mut n = 2usize;
    let same = |p: &Program| matches!(&run_seq(p).violation, Some((k, _)) if k == kind);
    while best.steps.len() >= 2 && runs < budget {
        let len = best.steps.len();
        let chunk = (len + n - 1) / n;
        let mut reduced = false;
        let mut i = 0;
        while i < len && runs < budget {
            let mut cand = best.clone();
            cand.steps.drain(i..(i + chunk).min(len));
            runs += 1;
            if same(&cand) {
                best = cand;
                n = (n - 1).max(2);
                reduced = true;
                break;
            }
            i += chunk;
        }
        if !reduced {
            if n >= len {
                break;
            }
            n = (n * 2).min(len);
        }
    }
    let mut si = 0;
    while si < best.steps.len() && runs < budget {
        if let Step::Txn { calls, .. } = &best.steps[si] {
            let mut ci = 0;
            let mut nc = calls.len();
            while nc > 1 && ci < nc && runs < budget {
                let mut cand = best.clone();
                if let Step::Txn { calls, .. } = &mut cand.steps[si] {
                    calls.remove(ci);
                }
                runs += 1;
                if same(&cand) {
                    best = cand;
                    nc -= 1;
                } else {
                    ci += 1;
                }
            }
        }
        si += 1;
    }
    best
}

pub fn cmd_seq(args: &Args) -> i32 {
    let tier = args.str("tier", "quick");
    let seed = args.u64("seed", 1);
    let from = args.u64("from", 0);
    let count = args.u64("count", 100);
    let out = args.str("out", "");
    let replay_dir = args.str("replay-dir", "/verif/replays");
    let progress = args.str("progress", "");
    if !progress.is_empty() {
        crate::util::set_candidate_path(&format!("{}.cand", progress));
    }
    let mut total = Counters::default();
    let mut hashes = vec![];
    let mut violations = vec![];
    let mut samples = vec![];
    let mut harness_errors = vec![];
    let mut seen: Vec<String> = vec![];
    let mut evaluations = 0u64;
    for idx in from..from + count {
        if !progress.is_empty() {
            if let Ok(mut f) = std::fs::File::create(&progress) {
                let _ = writeln!(f, "{}", idx);
            }
        }
        let mut rng = Rng::with_seed(crate::util::fnv_str(&format!("{}/C03/{}", seed, idx)));
        let prog = gen_seq_program(&mut rng, tier == "thorough");
        let res = run_seq(&prog);
        evaluations += 1;
        total.merge(&res.cnt);
        if res.cnt.get("comparisons") >= 5 {
            hashes.push(res.layout_hash ^ crate::util::fnv_str(&res.log.join("\n")));
        }
        if samples.len() < 2 && res.violation.is_none() && res.log.len() > 5 {
            samples.push(json!({"idx": idx, "cfg": prog.cfg, "calls": res.log.iter().take(30).collect::<Vec<_>>()}));
        }
        if let Some((k, d)) = res.violation {
            if k == "harness" {
                harness_errors.push(json!({"idx": idx, "error": d}));
                continue;
            }
            let mut entry = json!({"prop": "C03", "kind": k, "detail": d, "idx": idx});
            if !seen.contains(&k) {
                seen.push(k.clone());
                let min = minimise_seq(&prog, &k, 300);
                let minres = run_seq(&min);
                let _ = std::fs::create_dir_all(&replay_dir);
                let path = format!("{}/C03-{}-s{}-i{}.json", replay_dir, k.replace(|c: char| !c.is_alphanumeric(), "_"), seed, idx);
                let doc = json!({"workload": "seq", "prop": "C03", "tier": tier, "seed": seed, "idx": idx,
                    "violation": {"prop": "C03", "kind": k, "detail": d}, "program": prog,
                    "minimised": {"program": min, "log": minres.log, "detail": minres.violation.as_ref().map(|x| x.1.clone())}});
                if std::fs::write(&path, serde_json::to_string_pretty(&doc).unwrap()).is_ok() {
                    entry["replay"] = json!(path);
                }
                entry["min_steps"] = json!(min.steps.len());
                entry["min_detail"] = json!(minres.violation.map(|x| x.1));
            }
            if crate::util::room(&violations, entry["kind"].as_str().unwrap_or("")) {
                violations.push(entry);
            }
        }
    }
    let summary = json!({"workload": "seq", "prop": "C03", "tier": tier, "seed": seed, "from": from, "count": count,
        "evaluations": evaluations, "hashes": hashes, "counters": total.0, "violations": violations, "samples": samples, "harness_errors": harness_errors});
    let text = serde_json::to_string(&summary).unwrap();
    if out.is_empty() {
        println!("{}", text);
    } else {
        std::fs::write(&out, text).unwrap();
    }
    0
}

pub fn replay_seq(doc: &serde_json::Value, full: bool) -> i32 {
    let which = if full { &doc["program"] } else { &doc["minimised"]["program"] };
    let program: Program = serde_json::from_value(which.clone()).unwrap();
    let res = run_seq(&program);
    for l in &res.log {
        println!("  {}", l);
    }
    match res.violation {
        Some((k, d)) => {
            println!("REPLAY violation property=C03 kind={}\n{}", k, d);
            1
        }
        None => {
            println!("REPLAY no violation");
            0
        }
    }
}
