//! ymon — runtime monitors for y-crdt. One binary, several workloads; the python driver `check`
//! shards runs over processes, aggregates the JSON summaries and applies the verdict discipline.
mod c11;
mod dump;
mod idset;
mod model;
mod monitors;
mod ops;
mod prog;
mod readpaths;
mod runner;
mod seqmodel;
mod sync;
mod undo;
mod util;
mod weak;
mod wire;
mod world;

use util::Args;

#[global_allocator]
static ALLOC: wire::Counting = wire::Counting;

fn main() {
    let args = Args::parse();
    util::install_panic_hook();
    let cmd = args.pos.get(0).cloned().unwrap_or_default();
    let code = match cmd.as_str() {
        "sim" => runner::cmd_sim(&args),
        "replay" => runner::cmd_replay(&args),
        "seq" => seqmodel::cmd_seq(&args),
        "undo" => undo::cmd_undo(&args),
        "idset" => idset::cmd_idset(&args),
        "sync" => sync::cmd_sync(&args),
        "fuzz" => wire::cmd_fuzz(&args),
        "roundtrip" => wire::cmd_roundtrip(&args),
        _ => {
            eprintln!("usage: ymon sim|replay ...");
            2
        }
    };
    std::process::exit(code);
}
